// Package vh holds what every in-package harness shares: case statistics
// (evaluations, non-trivial fingerprints, label distribution, samples), the
// known-findings file, fail-file writing (the last one written by a rapid run
// is the shrunk case) and replay-file loading.
//
// It deliberately imports nothing from robustirc.
package vh

import (
	"encoding/json"
	"fmt"
	"hash/fnv"
	"os"
	"path/filepath"
	"sort"
	"strconv"
	"strings"
	"sync"
)

// Finding is one entry of /verif/known_findings.json.
type Finding struct {
	Property  string `json:"property"`
	Signature string `json:"signature"`
	What      string `json:"what"`
}

type knownFile struct {
	Findings []Finding `json:"findings"`
}

// Failure is what an oracle returns when the property does not hold on a case.
type Failure struct {
	// Signature identifies the root cause (stable across inputs that hit the
	// same defect); it is what known_findings.json lists.
	Signature string
	Message   string
}

func (f *Failure) Error() string { return f.Signature + ": " + f.Message }

func Failf(sig, format string, args ...interface{}) *Failure {
	return &Failure{Signature: sig, Message: fmt.Sprintf(format, args...)}
}

type Recorder struct {
	mu        sync.Mutex
	Property  string
	Test      string
	outDir    string
	known     map[string]bool
	KnownHits map[string]int    `json:"known_hits"`
	Evals     int               `json:"evaluations"`
	NonTriv   map[string]bool   `json:"-"`
	Labels    map[string]int    `json:"labels"`
	Samples   []json.RawMessage `json:"samples"`
	Counters  map[string]int64  `json:"counters"`
	maxSample int
	// fuzz workers: several processes write into one shard directory and may be killed at any time
	statsName  string
	flushEvery int
	maxNonTriv int
}

type statsFile struct {
	Property  string            `json:"property"`
	Evals     int               `json:"evaluations"`
	NonTriv   []string          `json:"nontrivial_fingerprints"`
	Labels    map[string]int    `json:"labels"`
	Samples   []json.RawMessage `json:"samples"`
	Counters  map[string]int64  `json:"counters"`
	KnownHits map[string]int    `json:"known_hits"`
}

// New creates the recorder of a property for this process. VERIF_OUT names the
// per-shard output directory, VERIF_KNOWN the known-findings file.
func New(property, test string) *Recorder {
	r := &Recorder{
		Property:  property,
		Test:      test,
		outDir:    os.Getenv("VERIF_OUT"),
		known:     map[string]bool{},
		KnownHits: map[string]int{},
		NonTriv:   map[string]bool{},
		Labels:    map[string]int{},
		Counters:  map[string]int64{},
		maxSample: 6,
	}
	if p := os.Getenv("VERIF_KNOWN"); p != "" {
		if b, err := os.ReadFile(p); err == nil {
			var kf knownFile
			if err := json.Unmarshal(b, &kf); err == nil {
				for _, f := range kf.Findings {
					if f.Property == property {
						r.known[f.Signature] = true
					}
				}
			}
		}
	}
	return r
}

// NewWorker is New for native fuzz targets: the target function runs in worker
// processes which share the shard directory and are killed when the campaign
// ends, so each process writes its own statistics file and rewrites it
// periodically. The set of distinct fingerprints is capped (the reported number
// of distinct non-trivial cases is then a lower bound).
func NewWorker(property, test string) *Recorder {
	r := New(property, test)
	r.statsName = fmt.Sprintf("stats-%s-%d.json", test, os.Getpid())
	r.flushEvery = 5000
	r.maxNonTriv = 200000
	return r
}

// Known reports whether sig is a listed known finding for this property and
// counts the hit. Oracles use it to step over a listed defect and continue.
func (r *Recorder) Known(sig string) bool {
	r.mu.Lock()
	defer r.mu.Unlock()
	if r.known[sig] {
		r.KnownHits[sig]++
		return true
	}
	return false
}

// IsKnown is Known without counting.
func (r *Recorder) IsKnown(sig string) bool {
	r.mu.Lock()
	defer r.mu.Unlock()
	return r.known[sig]
}

// Fingerprint hashes the JSON rendering of a case.
func Fingerprint(v interface{}) string {
	b, _ := json.Marshal(v)
	h := fnv.New64a()
	h.Write(b)
	return strconv.FormatUint(h.Sum64(), 16)
}

func FingerprintBytes(b []byte) string {
	h := fnv.New64a()
	h.Write(b)
	return strconv.FormatUint(h.Sum64(), 16)
}

// Case records one executed case.
func (r *Recorder) Case(fp string, nontrivial bool, labels []string, sample func() interface{}) {
	r.mu.Lock()
	defer r.mu.Unlock()
	r.Evals++
	for _, l := range labels {
		r.Labels[l]++
	}
	if r.flushEvery > 0 && r.Evals%r.flushEvery == 0 {
		defer r.flushLocked()
	}
	if nontrivial && r.maxNonTriv > 0 && len(r.NonTriv) >= r.maxNonTriv {
		r.Counters["nontrivial_cases_beyond_fingerprint_cap"]++
		return
	}
	if nontrivial {
		if !r.NonTriv[fp] {
			r.NonTriv[fp] = true
			if len(r.Samples) < r.maxSample && sample != nil {
				// spread the samples: the first two non-trivial cases, then every 50th
				n := len(r.NonTriv)
				if n <= 2 || n%50 == 0 {
					if b, err := json.Marshal(sample()); err == nil && len(b) < 64<<10 {
						r.Samples = append(r.Samples, b)
					}
				}
			}
		}
	}
}

func (r *Recorder) Count(name string, d int64) {
	r.mu.Lock()
	r.Counters[name] += d
	r.mu.Unlock()
}

func (r *Recorder) Label(l string) {
	r.mu.Lock()
	r.Labels[l]++
	r.mu.Unlock()
}

// FailFile is what a violation leaves behind; it doubles as the replay file.
type FailFile struct {
	Property  string          `json:"property"`
	Test      string          `json:"test"`
	Signature string          `json:"signature"`
	Message   string          `json:"message"`
	Case      json.RawMessage `json:"case"`
}

// WriteFail (over)writes the fail file of this shard. With rapid the property
// is re-run on the shrunk case last, so the file left behind is the minimal one.
func (r *Recorder) WriteFail(f *Failure, c interface{}) {
	if r.outDir == "" {
		return
	}
	cb, err := json.Marshal(c)
	if err != nil {
		cb = []byte(strconv.Quote(fmt.Sprintf("unmarshalable case: %v", err)))
	}
	b, _ := json.MarshalIndent(FailFile{Property: r.Property, Test: r.Test, Signature: f.Signature, Message: f.Message, Case: cb}, "", " ")
	tmp := filepath.Join(r.outDir, "fail.json.tmp")
	if err := os.WriteFile(tmp, b, 0644); err == nil {
		os.Rename(tmp, filepath.Join(r.outDir, "fail.json"))
	}
}

// Flush writes the statistics of this shard.
func (r *Recorder) Flush() {
	if r.outDir == "" {
		return
	}
	r.mu.Lock()
	defer r.mu.Unlock()
	r.flushLocked()
}

func (r *Recorder) flushLocked() {
	if r.outDir == "" {
		return
	}
	sf := statsFile{Property: r.Property, Evals: r.Evals, Labels: r.Labels, Samples: r.Samples, Counters: r.Counters, KnownHits: r.KnownHits}
	for fp := range r.NonTriv {
		sf.NonTriv = append(sf.NonTriv, fp)
	}
	sort.Strings(sf.NonTriv)
	b, _ := json.Marshal(sf)
	name := "stats-" + r.Test + ".json"
	if r.statsName != "" {
		name = r.statsName
	}
	tmp := filepath.Join(r.outDir, name+".tmp")
	if os.WriteFile(tmp, b, 0644) == nil {
		os.Rename(tmp, filepath.Join(r.outDir, name))
	}
}

// ReplayFiles returns the replay files this process was asked to re-execute
// (VERIF_REPLAY, comma separated) that belong to property.
func ReplayFiles(property, test string) []FailFile {
	var out []FailFile
	for _, p := range strings.Split(os.Getenv("VERIF_REPLAY"), ",") {
		p = strings.TrimSpace(p)
		if p == "" {
			continue
		}
		b, err := os.ReadFile(p)
		if err != nil {
			panic(fmt.Sprintf("replay file %s: %v", p, err))
		}
		var ff FailFile
		if err := json.Unmarshal(b, &ff); err != nil {
			panic(fmt.Sprintf("replay file %s: %v", p, err))
		}
		if ff.Property == property && (ff.Test == test || ff.Test == "") {
			out = append(out, ff)
		}
	}
	return out
}

// Replaying reports whether the process is in replay mode.
func Replaying() bool { return os.Getenv("VERIF_REPLAY") != "" }

// EnvInt reads an integer from the environment.
func EnvInt(name string, def int) int {
	if v := os.Getenv(name); v != "" {
		if n, err := strconv.Atoi(v); err == nil {
			return n
		}
	}
	return def
}

// ReplayAs names the test that re-executes the fail files this recorder writes
// (a fuzz target whose cases have the same form as those of a rapid test).
func (r *Recorder) ReplayAs(test string) { r.Test = test }
