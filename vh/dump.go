package vh

import (
	"fmt"
	"reflect"
	"sort"
	"strings"
)

// DumpState renders any value (reading unexported fields through reflection)
// as a flat path -> value map: maps sorted by key, nil and empty collections
// equal, time.Time by its raw words (a wall-clock reading carries a monotonic
// part and shows up as such), *regexp.Regexp by its expression, bool arrays as
// the set of true indexes, pointers to a struct named Session below the top
// level as the session id, mutexes skipped.
func DumpState(v interface{}) map[string]string {
	out := map[string]string{}
	rv := reflect.ValueOf(v)
	for rv.Kind() == reflect.Ptr && !rv.IsNil() {
		rv = rv.Elem() // the top-level value itself is at depth 0
	}
	dumpVal(rv, "", out, 0)
	return out
}

func dumpVal(v reflect.Value, path string, out map[string]string, depth int) {
	if depth > 14 {
		out[path] = "?depth"
		return
	}
	switch v.Kind() {
	case reflect.Ptr:
		if v.IsNil() {
			out[path] = "nil"
			return
		}
		t := v.Type().Elem()
		if t.PkgPath() == "sync" {
			return
		}
		if t.Name() == "Session" && t.Kind() == reflect.Struct && depth > 2 {
			id := v.Elem().FieldByName("Id")
			if id.IsValid() && id.Kind() == reflect.Struct && id.NumField() == 2 {
				out[path] = fmt.Sprintf("session#%d.%d", id.Field(0).Uint(), id.Field(1).Uint())
				return
			}
		}
		if t.String() == "regexp.Regexp" {
			out[path] = "re:" + v.Elem().FieldByName("expr").String()
			return
		}
		dumpVal(v.Elem(), path, out, depth+1)
	case reflect.Struct:
		if v.Type().String() == "time.Time" {
			wall, ext := v.FieldByName("wall").Uint(), v.FieldByName("ext").Int()
			if wall>>63 != 0 {
				out[path] = fmt.Sprintf("t:WALLCLOCK-READING(%d/%d)", wall, ext)
				return
			}
			out[path] = fmt.Sprintf("t:%d.%09d", ext, wall&0x3fffffff)
			return
		}
		if v.Type().PkgPath() == "sync" {
			return
		}
		for k := 0; k < v.NumField(); k++ {
			dumpVal(v.Field(k), path+"."+v.Type().Field(k).Name, out, depth+1)
		}
	case reflect.Map:
		if v.Len() == 0 {
			return
		}
		for _, key := range v.MapKeys() {
			ks := map[string]string{}
			dumpVal(key, "", ks, depth+1)
			var parts []string
			for a, b := range ks {
				parts = append(parts, a+"="+b)
			}
			sort.Strings(parts)
			dumpVal(v.MapIndex(key), path+"["+strings.Join(parts, ",")+"]", out, depth+1)
		}
	case reflect.Slice:
		if v.Len() == 0 {
			return
		}
		if v.Type().Elem().Kind() == reflect.Uint8 {
			out[path] = fmt.Sprintf("bytes:%x", v.Bytes())
			return
		}
		for k := 0; k < v.Len(); k++ {
			dumpVal(v.Index(k), fmt.Sprintf("%s[%d]", path, k), out, depth+1)
		}
	case reflect.Array:
		if v.Type().Elem().Kind() == reflect.Bool {
			var set []string
			for k := 0; k < v.Len(); k++ {
				if v.Index(k).Bool() {
					set = append(set, fmt.Sprint(k))
				}
			}
			out[path] = "set:" + strings.Join(set, ",")
			return
		}
		for k := 0; k < v.Len(); k++ {
			dumpVal(v.Index(k), fmt.Sprintf("%s[%d]", path, k), out, depth+1)
		}
	case reflect.String:
		out[path] = "s:" + v.String()
	case reflect.Bool:
		out[path] = fmt.Sprint(v.Bool())
	case reflect.Int, reflect.Int64, reflect.Int32, reflect.Int16, reflect.Int8:
		out[path] = fmt.Sprint(v.Int())
	case reflect.Uint64, reflect.Uint8, reflect.Uint, reflect.Uint32, reflect.Uint16:
		out[path] = fmt.Sprint(v.Uint())
	case reflect.Interface:
		if !v.IsNil() {
			dumpVal(v.Elem(), path, out, depth+1)
		}
	case reflect.Func, reflect.Chan:
	default:
		out[path] = "?" + v.Kind().String()
	}
}

// DumpServer is DumpState for an *ircserver.IRCServer: the creation time
// (numeric 003) is the one tolerated difference, serverSessions is a set.
func DumpServer(i interface{}) map[string]string {
	out := DumpState(i)
	var ss []string
	for k, v := range out {
		if strings.HasPrefix(k, ".ServerCreation") {
			delete(out, k)
		}
		if strings.HasPrefix(k, ".serverSessions[") {
			ss = append(ss, v)
			delete(out, k)
		}
	}
	sort.Strings(ss)
	var u []string
	for i, x := range ss {
		if i == 0 || x != ss[i-1] {
			u = append(u, x)
		}
	}
	out[".serverSessions(as set)"] = strings.Join(u, ",")
	return out
}

// DiffDumps lists up to max differing paths.
func DiffDumps(a, b map[string]string, max int) []string {
	var d []string
	for k, va := range a {
		if vb, ok := b[k]; !ok {
			d = append(d, fmt.Sprintf("%s: %.60s vs <absent>", k, va))
		} else if va != vb {
			d = append(d, fmt.Sprintf("%s: %.60s vs %.60s", k, va, vb))
		}
	}
	for k, vb := range b {
		if _, ok := a[k]; !ok {
			d = append(d, fmt.Sprintf("%s: <absent> vs %.60s", k, vb))
		}
	}
	sort.Strings(d)
	if len(d) > max {
		d = append(d[:max], fmt.Sprintf("... and %d more", len(d)-max))
	}
	return d
}

// GenericPath replaces map keys / indexes in a dump path by * (for signatures).
func GenericPath(p string) string {
	var b strings.Builder
	depth := 0
	for _, r := range p {
		switch {
		case r == '[':
			if depth == 0 {
				b.WriteString("[*")
			}
			depth++
		case r == ']':
			depth--
			if depth == 0 {
				b.WriteByte(']')
			}
		case depth == 0:
			b.WriteRune(r)
		}
	}
	return b.String()
}
