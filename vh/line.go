package vh

import (
	"fmt"
	"strings"
)

// LineProblem re-states the property for one delivered line.
func LineProblem(data string) string {
	if len(data) > 510 {
		return fmt.Sprintf("is %d bytes long (limit 510)", len(data))
	}
	for k := 0; k < len(data); k++ {
		switch data[k] {
		case '\n':
			return fmt.Sprintf("contains LF at byte %d", k)
		case '\r':
			return fmt.Sprintf("contains CR at byte %d", k)
		case 0:
			return fmt.Sprintf("contains NUL at byte %d", k)
		}
	}
	rest := data
	hasPrefix := false
	if strings.HasPrefix(rest, ":") {
		sp := strings.IndexByte(rest, ' ')
		if sp < 2 {
			return "has an empty prefix or nothing after it"
		}
		hasPrefix = true
		rest = rest[sp+1:]
	}
	cmd := rest
	if sp := strings.IndexByte(rest, ' '); sp >= 0 {
		cmd = rest[:sp]
	}
	if cmd == "" {
		return "has no command"
	}
	letters, digits := true, true
	for _, c := range []byte(cmd) {
		if !(c >= 'A' && c <= 'Z' || c >= 'a' && c <= 'z') {
			letters = false
		}
		if !(c >= '0' && c <= '9') {
			digits = false
		}
	}
	if !letters && !(digits && len(cmd) == 3) {
		return fmt.Sprintf("has command %q which is neither a word nor a three-digit numeric", cmd)
	}
	switch strings.ToUpper(cmd) {
	case "PRIVMSG", "NOTICE", "TOPIC", "PART", "QUIT", "KICK", "JOIN", "INVITE", "KILL":
		if !hasPrefix {
			return "relays a client command without a prefix"
		}
	}
	return ""
}
