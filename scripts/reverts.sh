#!/bin/bash
# usage: scripts/reverts.sh   re-runs the revert of every fix: commit against the check(s) that found the defect
m() { SKIP_BASELINE=1 /verif/scripts/mutant.sh /verif/mutants/revert-$1.patch "${@:2}" 2>&1 | grep -v '^WARNING'; }
m 13a96d6 C06 C13
m 59d7606 C06
m 7243531 C03 C14
m 911ce17 C14
m adce898 C01
m 795357c C03 C17
m 028cdd0 C03
m cb6a2db C12
m 5116e4d C13
m 9dde643 C08
m 483e361 C04
m ce0bb92 C02
m 550db67 C02
m 78187f8 C02 C07
m 39bef14 C15
m 24d765c C15
m 0d8b53f C20
m b00ef71 C20
m 800ca92 C20
m deb719b C20
m 147a5fc C04
