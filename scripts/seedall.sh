#!/bin/bash
# usage: scripts/seedall.sh   re-runs every kept seeded change against the quick check of its own property
for d in /verif/seeded/*/; do
  id=$(basename $d); prop=${id:0:3}
  SKIP_BASELINE=1 /verif/scripts/mutant.sh $d/patch.diff $prop 2>&1 | grep -v '^WARNING' | sed "s/^mutant=patch.diff/seed=$id/" | cut -c1-200
done
