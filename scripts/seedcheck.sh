#!/bin/bash
# usage: scripts/seedcheck.sh <ID> [<check id>...]
# Copies the sub-agent's deliverables to /verif/seeded/<ID>/, confirms in a scratch copy of /repo that the
# patch builds, passes the baseline and that the demonstration fails with / passes without it, then runs the checks.
set -u
id=$1; shift
export GOFLAGS=-mod=mod GOPROXY=off GOSUMDB=off GOTOOLCHAIN=local
src=/tmp/seed-$id/SEED
dst=/verif/seeded/$id
mkdir -p $dst
cp -r $src/. $dst/ 2>/dev/null; find $dst -name "*_test.go" -delete
demo=$(ls /tmp/seed-$id/*seed_demo*_test.go /tmp/seed-$id/*/*seed_demo*_test.go /tmp/seed-$id/*/*/*seed_demo*_test.go 2>/dev/null | grep -v /SEED/ | head -1)
rel=${demo#/tmp/seed-$id/}
[ -n "$demo" ] && cp "$demo" "$dst/seed_demo_test.go.txt"
d=$(mktemp -d /tmp/seedchk-XXXXXX); trap 'rm -rf "$d"' EXIT
rsync -a --exclude .git /repo/ $d/repo/
cd $d/repo
pkg=./$(dirname "$rel")
cp "$demo" "$d/repo/$rel"
without=$(go test -vet=off -count=1 -run 'Seed|seed|Demo' $pkg 2>&1 | tail -1)
if ! patch -p1 -s < $dst/patch.diff; then echo "PATCH-FAILED"; exit 2; fi
go build ./... || { echo "DOES-NOT-BUILD"; exit 2; }
with=$(go test -vet=off -count=1 -run 'Seed|seed|Demo' $pkg 2>&1 | tail -1)
rm "$d/repo/$rel"
base=$(go test -vet=off -count=1 ./... 2>&1 | grep -v 'mod_test\|TestMessageOfDeath\|no test files' | grep -v '^FAIL$' | grep -c '^FAIL\|^--- FAIL\|^panic')
echo "seed=$id demo=$rel demo_without_patch=[$without] demo_with_patch=[$with] baseline_failures_with_patch=$base"
results=""
for c in "$@"; do
  out=$(VERIF_REPO="$d/repo" VERIF_EVIDENCE_DIR="$d/ev" /verif/bin/vcheck run "$c" --tier ${TIER:-quick} 2>&1); rc=$?
  line=$(echo "$out" | grep -m1 '^VIOLATION\|^INCONCLUSIVE\|^OK')
  sig=$(echo "$out" | grep -m1 '^violation detail' | cut -c1-160)
  echo "  check=$c exit=$rc $line"
  [ -n "$sig" ] && echo "    $sig"
  results="$results $c:$rc"
done
echo "RESULTS $id:$results"
