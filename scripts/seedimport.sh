#!/bin/bash
# usage: scripts/seedimport.sh <ID> <worktree> [<check id>...]
# For sub-agent worktrees that keep the demonstration only as SEED/seed_demo_test.go.txt with a first
# line "// copy to: <dir>/seed_demo_test.go": puts the demonstration where it belongs, makes the
# worktree known to seedcheck.sh under /tmp/seed-<ID> and runs it.
set -u
id=$1; w=$2; shift 2
to=$(head -1 "$w/SEED/seed_demo_test.go.txt" | sed 's/.*copy to: *//' | awk '{print $1}')
to=${to#./}
[ -z "$to" ] && { echo "no copy-to line in $w/SEED/seed_demo_test.go.txt"; exit 2; }
cp "$w/SEED/seed_demo_test.go.txt" "$w/$to"
ln -sfn "$w" /tmp/seed-$id
/verif/scripts/seedcheck.sh "$id" "$@"
echo "$to" > /verif/seeded/$id/demo_path.txt
rm -f /tmp/seed-$id "$w/$to"
