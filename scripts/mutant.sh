#!/bin/bash
# usage: scripts/mutant.sh <patch-file> <ID> [<ID>...]
# Applies a patch to a scratch copy of /repo, checks that it still builds and
# that the baseline tests of the touched packages pass, runs the quick checks
# against the copy (VERIF_REPO) and removes the copy. Prints one line per check.
set -u
patch=$(realpath "$1"); shift
export GOFLAGS=-mod=mod GOPROXY=off GOSUMDB=off GOTOOLCHAIN=local
d=$(mktemp -d /tmp/mutant-XXXXXX)
trap 'rm -rf "$d"' EXIT
rsync -a --exclude .git /repo/ "$d/repo/"
cd "$d/repo" || exit 2
if ! patch -p1 -s < "$patch"; then echo "PATCH-FAILED $patch"; exit 2; fi
if ! go build ./... 2>"$d/build.log"; then echo "MUTANT-DOES-NOT-BUILD"; cat "$d/build.log"; exit 2; fi
if [ -z "${SKIP_BASELINE:-}" ]; then
  if ! go test -vet=off -count=1 ./... >"$d/test.log" 2>&1; then
    if grep -v 'mod_test\|TestMessageOfDeath\|^FAIL$' "$d/test.log" | grep -q '^FAIL\|^--- FAIL\|^panic'; then echo "MUTANT-FAILS-BASELINE"; grep '^--- FAIL\|^FAIL' "$d/test.log"; exit 2; fi
  fi
fi
for id in "$@"; do
  out=$(VERIF_REPO="$d/repo" VERIF_EVIDENCE_DIR="$d/ev" /verif/bin/vcheck run "$id" --tier ${TIER:-quick} 2>&1); rc=$?
  echo "mutant=$(basename "$patch") check=$id exit=$rc $(echo "$out" | grep -m1 '^VIOLATION\|^INCONCLUSIVE\|^OK' )"
  if [ -n "${VERBOSE:-}" ]; then echo "$out" | head -40; fi
done
