#!/usr/bin/env python3
"""mkmutant.py <name> <repo-relative-file> <old> <new> [<file> <old> <new> ...]
Writes /verif/mutants/<name>.patch replacing exactly one occurrence of old by new per triple."""
import sys,subprocess,tempfile,os
name=sys.argv[1]; args=sys.argv[2:]
out=[]
files={}
for k in range(0,len(args),3):
    f,old,new=args[k:k+3]
    src=files.get(f) or open('/repo/'+f).read()
    old=old.encode().decode('unicode_escape'); new=new.encode().decode('unicode_escape')
    if src.count(old)!=1: sys.exit(f"{f}: expected exactly one occurrence of {old!r}, found {src.count(old)}")
    files[f]=src.replace(old,new)
for f,dst in files.items():
    with tempfile.NamedTemporaryFile('w',delete=False) as t: t.write(dst)
    r=subprocess.run(['diff','-u','--label','a/'+f,'--label','b/'+f,'/repo/'+f,t.name],capture_output=True,text=True)
    os.unlink(t.name); out.append(r.stdout)
open(f'/verif/mutants/{name}.patch','w').write(''.join(out))
print('wrote',f'/verif/mutants/{name}.patch')
