#!/bin/bash
# usage: scripts/sens.sh <prefix>   runs every mutants/<prefix>-*.patch against check <prefix> (parallel 3)
p=$1
ls /verif/mutants/$p-*.patch | xargs -P 3 -I{} /verif/scripts/mutant.sh {} $p 2>&1 | grep -v '^WARNING'
