package robust

// C18, thorough tier: coverage-guided native fuzzing of the message codecs with
// the round-trip oracle of TestVerifC18Messages inside the target. The typed
// fuzz arguments are the fields of the message to write, of the message that
// was in the reused destination before, and the raft index. Text is made valid
// UTF-8 (the property quantifies over valid UTF-8 text).

import (
	"strings"
	"testing"

	"verif.local/verif/vh"
)

func FuzzVerifC18Messages(f *testing.F) {
	rec := vh.NewWorker("C18", "FuzzVerifC18Messages")
	rec.ReplayAs("TestVerifC18Messages") // same case form; the rapid test's replay path re-executes it
	defer rec.Flush()
	if vh.Replaying() {
		f.Skip("replay mode: cases of this target are replayed by TestVerifC18Messages")
	}
	f.Add(uint8(2), uint64(0), uint64(0), uint64(7), "NICK sECuRE", int64(1420070400e9), uint64(3), uint64(0), "10.0.0.1", "", "a:1,b:2",
		uint8(5), uint64(9), uint64(4), "x", uint64(77), uint64(12), uint64(20))
	f.Add(uint8(5), uint64(1), uint64(2), uint64(0), "SessionExpiration = \"10m\"", int64(0), uint64(0), uint64(4), "", "node1:443", "",
		uint8(2), uint64(0), uint64(0), "PRIVMSG #a :ü€😀", uint64(1<<63), uint64(0), uint64(1))
	f.Add(uint8(0), ^uint64(0), ^uint64(0), ^uint64(0), "", int64(-1), ^uint64(0), ^uint64(0), "ü", "ü", ",",
		uint8(8), uint64(0), uint64(0), "", uint64(0), uint64(0), ^uint64(0)>>24)
	f.Fuzz(func(t *testing.T, typ uint8, id, reply, session uint64, data string, nano int64, cmid, rev uint64, addr, master, servers string,
		ptyp uint8, pid, psession uint64, pdata string, pcmid, prev uint64, index uint64) {
		v := func(s string) string { return strings.ToValidUTF8(s, "�") }
		c := c18Case{
			Msg: Message{Id: Id{Id: id, Reply: reply}, Session: Id{Id: session}, Type: Type(typ % 9), Data: v(data), UnixNano: nano,
				ClientMessageId: cmid, Revision: rev, RemoteAddr: v(addr), Currentmaster: v(master)},
			Prev:  Message{Id: Id{Id: pid}, Session: Id{Id: psession}, Type: Type(ptyp % 9), Data: v(pdata), ClientMessageId: pcmid, Revision: prev},
			Index: index%(1<<40) + 1,
		}
		if servers != "" {
			c.Msg.Servers = strings.Split(v(servers), ",")
			if len(c.Msg.Servers) > 4 {
				c.Msg.Servers = c.Msg.Servers[:4]
			}
		}
		nz := 0
		for _, b := range []bool{nano != 0, len(c.Msg.Servers) > 0, master != "", cmid != 0, rev != 0, addr != "", reply != 0} {
			if b {
				nz++
			}
		}
		rec.Case(vh.Fingerprint(c), nz >= 3, []string{"c18:fuzz-type-" + c.Msg.Type.String()}, func() interface{} { return c })
		if fl := c18Check(c); fl != nil {
			if rec.Known(fl.Signature) {
				return
			}
			rec.WriteFail(fl, c)
			t.Fatalf("%v", fl)
		}
	})
}
