package robust

// C18 (unit messages): every writer/reader pair of the replicated message round-trips.

import (
	"bytes"
	"encoding/json"
	"fmt"
	"reflect"
	"testing"

	"github.com/golang/protobuf/proto"
	protov2 "google.golang.org/protobuf/proto"
	"pgregory.net/rapid"
	"verif.local/verif/vh"
)

type c18Case struct {
	Msg   Message `json:"message"`
	Prev  Message `json:"previous_message_in_reused_destination"`
	Index uint64  `json:"raft_index"`
}

var c18Uint = rapid.OneOf(rapid.Just(uint64(0)), rapid.Uint64Range(1, 100), rapid.Uint64(), rapid.Just(^uint64(0)))
var c18Text = rapid.OneOf(rapid.Just(""), rapid.StringN(0, 30, 120), rapid.StringN(200, 600, 2400), rapid.SampledFrom([]string{"NICK sECuRE", "PRIVMSG #chan :hi <there> & \"you\"", " line sep", "ü€😀", "a\x00b", "tab\tnl\nrc\r"}))

func genMessage(t *rapid.T, label string) Message {
	m := Message{
		Id:              Id{Id: c18Uint.Draw(t, label+"id"), Reply: c18Uint.Draw(t, label+"reply")},
		Session:         Id{Id: c18Uint.Draw(t, label+"sid"), Reply: c18Uint.Draw(t, label+"sreply")},
		Type:            Type(rapid.IntRange(0, 8).Draw(t, label+"type")),
		Data:            c18Text.Draw(t, label+"data"),
		UnixNano:        rapid.OneOf(rapid.Just(int64(0)), rapid.Int64(), rapid.Int64Range(1400000000e9, 1900000000e9)).Draw(t, label+"nano"),
		ClientMessageId: c18Uint.Draw(t, label+"cmid"),
		Revision:        c18Uint.Draw(t, label+"rev"),
		RemoteAddr:      rapid.SampledFrom([]string{"", "10.0.0.1", "2001:db8::1", "ü"}).Draw(t, label+"addr"),
		Currentmaster:   rapid.SampledFrom([]string{"", "node1:443", "ü"}).Draw(t, label+"master"),
	}
	if n := rapid.IntRange(0, 3).Draw(t, label+"nservers"); n > 0 {
		for k := 0; k < n; k++ {
			m.Servers = append(m.Servers, rapid.SampledFrom([]string{"a:1", "b:2", "", "ü:3"}).Draw(t, label+"server"))
		}
	}
	return m
}

func sameMsg(a, b Message) bool {
	if len(a.Servers) == 0 && len(b.Servers) == 0 {
		a.Servers, b.Servers = nil, nil
	}
	a.InterestingFor, b.InterestingFor = nil, nil
	return reflect.DeepEqual(a, b)
}

func c18Check(c c18Case) (f *vh.Failure) {
	defer func() {
		if r := recover(); r != nil {
			f = vh.Failf("codec-panic", "panic: %v", r)
		}
	}()
	want := c.Msg
	if want.Id.Id == 0 {
		want.Id.Id = c.Index
	}
	// protobuf
	pbytes, err := proto.Marshal(c.Msg.ProtoMessage())
	if err != nil {
		return vh.Failf("proto-marshal-error", "proto.Marshal: %v", err)
	}
	got := NewMessageFromBytes(append([]byte{'p'}, pbytes...), c.Index)
	if !sameMsg(got, want) {
		return vh.Failf("proto-roundtrip", "protobuf round trip: wrote %+v, read %+v (index %d)", c.Msg, got, c.Index)
	}
	// a decoded message is a value of its own: decoding the next message of the log (here: the
	// other generated message) does not change it (seed C18p: a pooled intermediate message whose
	// Servers slice the result shared)
	if obytes, err := proto.Marshal(c.Prev.ProtoMessage()); err == nil {
		other := NewMessageFromBytes(append([]byte{'p'}, obytes...), c.Index+1)
		if !sameMsg(got, want) {
			return vh.Failf("decoded-message-changed-by-later-decode", "after decoding %+v, the message decoded before it reads %+v, it was written and first read as %+v", other, got, want)
		}
	}
	// decode(encode(decode(x))) is a fixpoint
	p2, _ := proto.Marshal(got.ProtoMessage())
	if got2 := NewMessageFromBytes(append([]byte{'p'}, p2...), c.Index); !sameMsg(got2, got) {
		return vh.Failf("proto-fixpoint", "protobuf decode/encode/decode is not a fixpoint: %+v vs %+v", got, got2)
	}
	// legacy JSON
	jbytes, err := json.Marshal(&c.Msg)
	if err != nil {
		return vh.Failf("json-marshal-error", "json.Marshal: %v", err)
	}
	gotj := NewMessageFromBytes(jbytes, c.Index)
	if !sameMsg(gotj, want) {
		return vh.Failf("json-roundtrip", "JSON round trip: wrote %+v, read %+v (index %d)", c.Msg, gotj, c.Index)
	}
	// both protobuf encoders agree, also into a reused destination
	dst := c.Prev.ProtoMessage()
	c.Msg.CopyToProtoMessage(dst)
	opts := protov2.MarshalOptions{Deterministic: true}
	a, err1 := opts.Marshal(c.Msg.ProtoMessage())
	b, err2 := opts.Marshal(dst)
	if err1 != nil || err2 != nil {
		return vh.Failf("proto-marshal-error", "marshal: %v / %v", err1, err2)
	}
	if !bytes.Equal(a, b) {
		return vh.Failf("encoders-disagree", "ProtoMessage and CopyToProtoMessage (into a destination that held %+v) encode %+v differently: %x vs %x", c.Prev, c.Msg, a, b)
	}
	return nil
}

func TestVerifC18Messages(t *testing.T) {
	rec := vh.New("C18", "TestVerifC18Messages")
	defer rec.Flush()
	if vh.Replaying() {
		for _, ff := range vh.ReplayFiles("C18", "TestVerifC18Messages") {
			var c c18Case
			if err := json.Unmarshal(ff.Case, &c); err != nil {
				t.Fatalf("bad replay case: %v", err)
			}
			if f := c18Check(c); f != nil && !rec.Known(f.Signature) {
				rec.WriteFail(f, c)
				t.Fatalf("%v", f)
			}
		}
		return
	}
	rapid.Check(t, func(rt *rapid.T) {
		c := c18Case{Msg: genMessage(rt, "m."), Prev: genMessage(rt, "p."), Index: rapid.Uint64Range(1, 1<<40).Draw(rt, "index")}
		nz := 0
		for _, b := range []bool{c.Msg.UnixNano != 0, len(c.Msg.Servers) > 0, c.Msg.Currentmaster != "", c.Msg.ClientMessageId != 0, c.Msg.Revision != 0, c.Msg.RemoteAddr != "", c.Msg.Session.Reply != 0, c.Msg.Id.Reply != 0} {
			if b {
				nz++
			}
		}
		labels := []string{fmt.Sprintf("c18:type-%s", c.Msg.Type.String())}
		if c.Msg.Id.Id == 0 {
			labels = append(labels, "c18:id-absent")
		}
		rec.Case(vh.Fingerprint(c), nz >= 3, labels, func() interface{} { return c })
		if f := c18Check(c); f != nil {
			if rec.Known(f.Signature) {
				return
			}
			rec.WriteFail(f, c)
			rt.Fatalf("%v", f)
		}
	})
}
