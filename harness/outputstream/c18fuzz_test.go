package outputstream

// C18, thorough tier: coverage-guided native fuzzing of the output batch codec
// with the round-trip oracle of TestVerifC18Batches inside the target. The
// bytes are decoded into a batch: 8 bytes NextID, then per message a header
// (id, reply: 8 bytes each; recipients count: 1 byte mod 6; text length: 2
// bytes mod 2200), the recipients (8 bytes each) and the text (made valid UTF-8).

import (
	"encoding/binary"
	"strings"
	"testing"

	"verif.local/verif/vh"
)

func c18BDecode(b []byte) c18BCase {
	u64 := func() uint64 {
		if len(b) < 8 {
			b = nil
			return 0
		}
		v := binary.LittleEndian.Uint64(b)
		b = b[8:]
		return v
	}
	c := c18BCase{NextID: u64()}
	for len(b) > 0 && len(c.Msgs) < 6 {
		m := c18BMsg{Id: u64(), Reply: u64()}
		if len(b) < 3 {
			c.Msgs = append(c.Msgs, m)
			break
		}
		nto := int(b[0]) % 6
		tl := int(binary.LittleEndian.Uint16(b[1:3])) % 2200
		b = b[3:]
		seen := map[uint64]bool{}
		for k := 0; k < nto; k++ {
			x := u64()
			if !seen[x] {
				seen[x] = true
				m.To = append(m.To, x)
			}
		}
		if tl > len(b) {
			tl = len(b)
		}
		m.Data = strings.ToValidUTF8(string(b[:tl]), "�")
		b = b[tl:]
		c.Msgs = append(c.Msgs, m)
	}
	return c
}

func FuzzVerifC18Batches(f *testing.F) {
	rec := vh.NewWorker("C18", "FuzzVerifC18Batches")
	rec.ReplayAs("TestVerifC18Batches")
	defer rec.Flush()
	if vh.Replaying() {
		f.Skip("replay mode: cases of this target are replayed by TestVerifC18Batches")
	}
	f.Add([]byte{})
	f.Add(append(make([]byte, 8+16), 2, 5, 0, 1, 0, 0, 0, 0, 0, 0, 0, 2, 0, 0, 0, 0, 0, 0, 0, 'h', 'e', 'l', 'l', 'o'))
	f.Add([]byte(strings.Repeat("\xff", 8+16) + "\x05\xff\xff" + strings.Repeat("\xfe", 40) + strings.Repeat("ü", 300)))
	f.Fuzz(func(t *testing.T, data []byte) {
		c := c18BDecode(data)
		multi := 0
		for _, m := range c.Msgs {
			if len(m.To) >= 2 {
				multi++
			}
		}
		rec.Case(vh.Fingerprint(c), len(c.Msgs) >= 2 && multi >= 1, nil, func() interface{} { return c })
		if fl := c18BCheck(c); fl != nil {
			if rec.Known(fl.Signature) {
				return
			}
			rec.WriteFail(fl, c)
			t.Fatalf("%v", fl)
		}
	})
}
