package outputstream

// C20 (unit output): readers of the output stream beside the state machine's
// writes, under the race detector, on a stream that is as full as a real
// node's. The node unit of C20 (package main) reaches the output stream only
// through a few dozen batches; the decoded-batch cache and its eviction
// (more than 1000 distinct batches read) never come into play there.
//
// A group = one writer goroutine (the FSM: Add in increasing id order and
// Delete oldest-first and now and then the newest, never concurrently with each other, as Apply and
// Snapshot run on raft's FSM goroutine) beside several reader goroutines
// (long-polling GetNext with a deadline, Get by id, LastSeen) and an
// interrupter, on a stream prefilled and read through so that the cache holds
// either a handful of batches or about as many as its limit (1000), so that readers push it over the limit and evict while others look batches up. The oracle is the race
// detector; the driver collects its reports.

import (
	"context"
	"encoding/json"
	"fmt"
	"math/rand"
	"os"
	"path/filepath"
	"sync"
	"testing"
	"time"

	"github.com/robustirc/robustirc/internal/robust"
	"verif.local/verif/vh"
)

type c20OutGroup struct {
	Seed     int64 `json:"seed"`
	Prefill  int   `json:"batches_read_into_the_cache_before"`
	Readers  int   `json:"readers"`
	WriterN  int   `json:"writer_operations"`
	ReaderN  int   `json:"reader_operations"`
	Deletes  bool  `json:"writer_also_deletes_oldest_first"`
	Interupt bool  `json:"interrupter"`
}

func c20OutBatch(id uint64, n int) []Message {
	var ms []Message
	for r := 1; r <= n; r++ {
		ms = append(ms, Message{Id: robust.Id{Id: id, Reply: uint64(r)}, Data: fmt.Sprintf("reply %d.%d", id, r), InterestingFor: map[uint64]bool{id % 3: true, 7: true}})
	}
	return ms
}

func c20OutRun(g c20OutGroup, dir string) error {
	o, err := NewOutputStream(dir)
	if err != nil {
		return err
	}
	defer o.Close()
	next := uint64(1)
	for ; next <= uint64(g.Prefill); next++ {
		if err := o.Add(c20OutBatch(next, 1+int(next%3))); err != nil {
			return err
		}
		o.Get(robust.Id{Id: next})
	}
	var wg sync.WaitGroup
	start := make(chan struct{})
	var mu sync.Mutex // protects the harness's own view of the id range, nothing of the stream
	oldest, newest := uint64(1), next-1
	wg.Add(1)
	go func() {
		defer wg.Done()
		<-start
		r := rand.New(rand.NewSource(g.Seed))
		for k := 0; k < g.WriterN; k++ {
			mu.Lock()
			lo, hi := oldest, newest
			mu.Unlock()
			// a snapshot that folds everything (idle network) deletes the newest batch as well: the
			// only deletion that rewrites lastseen
			if g.Deletes && r.Intn(6) == 0 && lo+5 < hi {
				o.Delete(robust.Id{Id: hi})
				o.Add(c20OutBatch(hi+1, 1+r.Intn(3)))
				mu.Lock()
				newest++
				mu.Unlock()
				continue
			}
			if g.Deletes && r.Intn(3) == 0 && lo+5 < hi {
				o.Delete(robust.Id{Id: lo})
				mu.Lock()
				oldest++
				mu.Unlock()
				continue
			}
			o.Add(c20OutBatch(hi+1, 1+r.Intn(3)))
			mu.Lock()
			newest++
			mu.Unlock()
		}
	}()
	for rd := 0; rd < g.Readers; rd++ {
		wg.Add(1)
		rd := rd
		go func() {
			defer wg.Done()
			<-start
			r := rand.New(rand.NewSource(g.Seed + int64(rd+1)*7919))
			for k := 0; k < g.ReaderN; k++ {
				mu.Lock()
				lo, hi := oldest, newest
				mu.Unlock()
				id := lo + uint64(r.Int63n(int64(hi-lo+2)))
				if rd%2 == 0 {
					// a client that lags behind and reads its way forward: with more stored batches than
					// the cache holds, nearly every lookup is a miss and the cache is evicted from again
					// and again while the other readers look batches up
					id = lo + uint64(k)%(hi-lo+1)
					if k%3 == 0 {
						o.GetNext(context.Background(), robust.Id{Id: id - 1})
					} else {
						o.Get(robust.Id{Id: id})
					}
					continue
				}
				switch r.Intn(4) {
				case 0, 1:
					// a lagging client: reads far behind the tail, every id a cache miss or hit
					o.Get(robust.Id{Id: id})
				case 2:
					ctx, cancel := context.WithTimeout(context.Background(), 2*time.Millisecond)
					done := make(chan struct{})
					go func() {
						select {
						case <-ctx.Done():
							o.InterruptGetNext()
						case <-done:
						}
					}()
					o.GetNext(ctx, robust.Id{Id: id})
					close(done)
					cancel()
				default:
					o.LastSeen()
				}
			}
		}()
	}
	if g.Interupt {
		wg.Add(1)
		go func() {
			defer wg.Done()
			<-start
			for k := 0; k < 20; k++ {
				o.InterruptGetNext()
				time.Sleep(200 * time.Microsecond)
			}
		}()
	}
	close(start)
	done := make(chan struct{})
	go func() { wg.Wait(); close(done) }()
	select {
	case <-done:
		return nil
	case <-time.After(60 * time.Second):
		return fmt.Errorf("group did not finish within 60s: %+v", g)
	}
}

func TestVerifC20Output(t *testing.T) {
	rec := vh.New("C20", "TestVerifC20Output")
	defer rec.Flush()
	base, err := os.MkdirTemp("", "c20o-")
	if err != nil {
		t.Fatal(err)
	}
	defer os.RemoveAll(base)
	seed := int64(1)
	if s := os.Getenv("VERIF_SHARD_SEED"); s != "" {
		var x uint64
		fmt.Sscan(s, &x)
		seed = int64(x & 0x7fffffff)
	}
	ngroups := vh.EnvInt("VERIF_N", 4)
	glog, _ := os.Create(filepath.Join(os.Getenv("VERIF_OUT"), "groups-output.jsonl"))
	if glog != nil {
		defer glog.Close()
	}
	r := rand.New(rand.NewSource(seed))
	for k := 0; k < ngroups; k++ {
		g := c20OutGroup{Seed: seed*1000 + int64(k), Prefill: []int{8, 40, 985, 1000, 1000, 1100, 1600}[r.Intn(7)], Readers: 1 + r.Intn(4),
			WriterN: 20 + r.Intn(120), ReaderN: 200 + r.Intn(3000), Deletes: r.Intn(2) == 0, Interupt: r.Intn(3) == 0}
		if glog != nil {
			b, _ := json.Marshal(g)
			glog.Write(append(b, '\n'))
		}
		dir := filepath.Join(base, fmt.Sprint(k))
		os.MkdirAll(dir, 0755)
		err := c20OutRun(g, dir)
		os.RemoveAll(dir)
		labels := []string{fmt.Sprintf("c20out:readers=%d", g.Readers)}
		if g.Prefill > 900 {
			labels = append(labels, "c20out:cache-at-its-limit")
		}
		rec.Case(vh.Fingerprint(g), g.Prefill > 900 && g.Readers >= 2, labels, func() interface{} { return g })
		if err != nil {
			fmt.Fprintf(os.Stderr, "group %d inconclusive: %v\n", k, err)
			rec.Label("c20out:group-inconclusive")
		}
	}
}
