package outputstream

// C18 (unit batches): the hand-written output batch codec round-trips.

import (
	"encoding/json"
	"reflect"
	"testing"

	"pgregory.net/rapid"
	"verif.local/verif/vh"
)

type c18BMsg struct {
	Id, Reply uint64
	Data      string
	To        []uint64
}

type c18BCase struct {
	NextID uint64    `json:"next_id"`
	Msgs   []c18BMsg `json:"messages"`
}

func (c c18BCase) batch() *messageBatch {
	b := &messageBatch{NextID: c.NextID}
	for _, m := range c.Msgs {
		mm := Message{Data: m.Data, InterestingFor: map[uint64]bool{}}
		mm.Id.Id, mm.Id.Reply = m.Id, m.Reply
		for _, t := range m.To {
			mm.InterestingFor[t] = true
		}
		b.Messages = append(b.Messages, mm)
	}
	return b
}

func c18BCheck(c c18BCase) (f *vh.Failure) {
	defer func() {
		if r := recover(); r != nil {
			f = vh.Failf("batch-codec-panic", "panic: %v", r)
		}
	}()
	want := c.batch()
	got := unmarshalMessageBatch(want.marshal())
	if got.NextID != want.NextID {
		return vh.Failf("batch-nextid", "NextID written %d, read %d", want.NextID, got.NextID)
	}
	if len(got.Messages) != len(want.Messages) {
		return vh.Failf("batch-length", "wrote %d messages, read %d", len(want.Messages), len(got.Messages))
	}
	for k := range want.Messages {
		w, g := want.Messages[k], got.Messages[k]
		if w.Id != g.Id || w.Data != g.Data {
			return vh.Failf("batch-message", "message #%d: wrote %v %q, read %v %q", k, w.Id, w.Data, g.Id, g.Data)
		}
		if len(w.InterestingFor) != len(g.InterestingFor) || (len(w.InterestingFor) > 0 && !reflect.DeepEqual(w.InterestingFor, g.InterestingFor)) {
			return vh.Failf("batch-recipients", "message #%d: wrote recipients %v, read %v", k, w.InterestingFor, g.InterestingFor)
		}
	}
	return nil
}

var c18BUint = rapid.OneOf(rapid.Just(uint64(0)), rapid.Uint64Range(1, 50), rapid.Uint64(), rapid.Just(^uint64(0)))

func TestVerifC18Batches(t *testing.T) {
	rec := vh.New("C18", "TestVerifC18Batches")
	defer rec.Flush()
	if vh.Replaying() {
		for _, ff := range vh.ReplayFiles("C18", "TestVerifC18Batches") {
			var c c18BCase
			if err := json.Unmarshal(ff.Case, &c); err != nil {
				t.Fatalf("bad replay case: %v", err)
			}
			if f := c18BCheck(c); f != nil && !rec.Known(f.Signature) {
				rec.WriteFail(f, c)
				t.Fatalf("%v", f)
			}
		}
		return
	}
	rapid.Check(t, func(rt *rapid.T) {
		c := c18BCase{NextID: c18BUint.Draw(rt, "nextid")}
		n := rapid.IntRange(0, 5).Draw(rt, "nmsgs")
		multi := 0
		for k := 0; k < n; k++ {
			m := c18BMsg{Id: c18BUint.Draw(rt, "id"), Reply: c18BUint.Draw(rt, "reply"), Data: rapid.OneOf(rapid.Just(""), rapid.StringN(0, 40, 200), rapid.StringN(400, 520, 2100)).Draw(rt, "data")}
			m.To = rapid.SliceOfNDistinct(c18BUint, 0, 5, func(x uint64) uint64 { return x }).Draw(rt, "to")
			if len(m.To) >= 2 {
				multi++
			}
			c.Msgs = append(c.Msgs, m)
		}
		rec.Case(vh.Fingerprint(c), n >= 2 && multi >= 1, nil, func() interface{} { return c })
		if f := c18BCheck(c); f != nil {
			if rec.Known(f.Signature) {
				return
			}
			rec.WriteFail(f, c)
			rt.Fatalf("%v", f)
		}
	})
}
