package api

// C04: exactly-once, in-order delivery when a client resumes with lastseen.
// The real api.getMessages runs as a scheduler-controlled goroutine against an
// output stream compiled with the vsync drop-in, while a feeder goroutine
// (the node applying entries) adds batches; the interleaving of their
// lock-protected steps is drawn by rapid or read from the replay file.

import (
	"context"
	"encoding/json"
	"flag"
	"fmt"
	"io"
	"log"
	"os"
	"strings"
	"testing"

	"github.com/robustirc/robustirc/internal/outputstream"
	"github.com/robustirc/robustirc/internal/robust"
	"pgregory.net/rapid"
	"verif.local/verif/vh"
	"verif.local/verif/vsync"
)

func init() {
	log.SetOutput(io.Discard)
	flag.Set("logtostderr", "false")
	flag.Set("stderrthreshold", "FATAL")
}

const c04Session = 1 // the client's session id; output batches have larger ids

type c04Batch struct {
	Id uint64 `json:"id"`
	// To[k] lists the recipients of reply k+1: 1 = the observed session, 2 and 3 = others
	To [][]uint64 `json:"to"`
}

type c04Conn struct {
	Node int `json:"node"`
	// Feed: how many further batches the node applies while this connection is open
	Feed int `json:"feed"`
	// Quota: the client disconnects after consuming this many messages (-1: stays connected)
	Quota int `json:"quota"`
	// Compact: before the connection the node drops this many of its oldest batches that are older than the resume point
	Compact  int   `json:"compact"`
	Schedule []int `json:"schedule"`
}

type c04Case struct {
	Batches []c04Batch `json:"batches"`
	Applied []int      `json:"initially_applied_per_node"`
	Conns   []c04Conn  `json:"connections"`
}

func (b c04Batch) messages() []outputstream.Message {
	var ms []outputstream.Message
	for k, to := range b.To {
		m := outputstream.Message{Id: robust.Id{Id: b.Id, Reply: uint64(k + 1)}, Data: fmt.Sprintf("msg %d.%d", b.Id, k+1), InterestingFor: map[uint64]bool{}}
		for _, t := range to {
			m.InterestingFor[t] = true
		}
		ms = append(ms, m)
	}
	return ms
}

type c04Node struct {
	o       *outputstream.OutputStream
	applied int   // number of batches added so far
	deleted []int // indexes deleted by compaction
}

func c04Run(c *c04Case, choose func(conn int, n int) int, tmp string) (fail *vh.Failure, labels []string, scheds [][]int) {
	nodes := make([]*c04Node, len(c.Applied))
	clean := true
	defer func() {
		if clean {
			for _, n := range nodes {
				if n != nil && n.o != nil {
					n.o.Close()
				}
			}
		}
	}()
	for k := range nodes {
		o, err := outputstream.NewOutputStream(tmp)
		if err != nil {
			return vh.Failf("harness", "NewOutputStream: %v", err), nil, nil
		}
		nodes[k] = &c04Node{o: o}
		for j := 0; j < c.Applied[k] && j < len(c.Batches); j++ {
			o.Add(c.Batches[j].messages())
			nodes[k].applied++
		}
	}
	var expected []robust.Id
	for _, b := range c.Batches {
		for k, to := range b.To {
			for _, t := range to {
				if t == c04Session {
					expected = append(expected, robust.Id{Id: b.Id, Reply: uint64(k + 1)})
				}
			}
		}
	}
	lastSeen := robust.Id{Id: c04Session}
	var consumed []robust.Id
	lab := map[string]bool{}
	for ci := range c.Conns {
		conn := &c.Conns[ci]
		node := nodes[conn.Node%len(nodes)]
		final := ci == len(c.Conns)-1
		feed := conn.Feed
		if final {
			feed = len(c.Batches) - node.applied
		}
		if feed > len(c.Batches)-node.applied {
			feed = len(c.Batches) - node.applied
		}
		// compaction: only batches older than the resume point may have been folded away
		for k, dropped := 0, 0; k < node.applied && dropped < conn.Compact; k++ {
			if c.Batches[k].Id >= lastSeen.Id {
				break
			}
			already := false
			for _, d := range node.deleted {
				if d == k {
					already = true
				}
			}
			if already || k == node.applied-1 {
				continue
			}
			node.o.Delete(robust.Id{Id: c.Batches[k].Id})
			node.deleted = append(node.deleted, k)
			dropped++
			lab["c04:node-compacted-before-resume"] = true
		}
		// classify the situation for the labels
		if lastSeen.Id != c04Session {
			have := false
			for k := 0; k < node.applied; k++ {
				if c.Batches[k].Id == lastSeen.Id {
					have = true
				}
			}
			if !have {
				lab["c04:reconnect-to-node-behind-the-resume-point"] = true
			}
			for _, b := range c.Batches {
				if b.Id == lastSeen.Id && int(lastSeen.Reply) < len(b.To) {
					lab["c04:reconnect-inside-a-batch"] = true
				}
			}
		}

		api := &HTTP{outputUnlocked: node.o, getMessagesRequests: make(map[string]GetMessagesStats)}
		ctx, cancel := context.WithCancel(context.Background())
		ch := make(chan []*robust.Message)
		stop := make(chan struct{})
		consumerDone := make(chan struct{})
		var got []robust.Id
		resume := lastSeen
		var bad *vh.Failure
		go func() {
			defer close(consumerDone)
			count := 0
			for {
				select {
				case <-stop:
					return
				case msgs := <-ch:
					if conn.Quota >= 0 && count >= conn.Quota {
						continue // the client is gone: nothing is consumed any more
					}
					for _, m := range msgs {
						if m.Type != robust.Ping && !m.InterestingFor[c04Session] {
							continue
						}
						if conn.Quota >= 0 && count >= conn.Quota {
							break
						}
						got = append(got, m.Id)
						count++
						if conn.Quota >= 0 && count >= conn.Quota {
							cancel()
						}
					}
				}
			}
		}()
		if conn.Quota == 0 {
			cancel()
		}
		finisherStarted := false
		names := []string{"getMessages", "feeder", "finisher"}
		bodies := []func(){
			func() { c04GetMessages(api, ctx, resume, ch) },
			func() {
				for k := 0; k < feed; k++ {
					if err := node.o.Add(c.Batches[node.applied].messages()); err != nil {
						panic(err)
					}
					node.applied++
				}
			},
			func() {
				finisherStarted = true
				cancel()
				node.o.InterruptGetNext()
			},
		}
		var sched []int
		pos := 0
		pick := func(n int) int {
			if !finisherStarted {
				n--
			}
			if n <= 1 {
				return 0
			}
			var chx int
			if choose != nil {
				chx = choose(ci, n)
			} else if pos < len(conn.Schedule) {
				chx = conn.Schedule[pos] % n
			}
			pos++
			sched = append(sched, chx)
			return chx
		}
		res := vsync.S.Run(names, bodies, pick, 50000)
		cancel()
		close(stop)
		<-consumerDone
		scheds = append(scheds, sched)
		if len(res.Panics) > 0 {
			clean = false
			return vh.Failf("panic-in-getmessages", "connection #%d: %s", ci, res.Panics[0]), keys(lab), scheds
		}
		if len(res.Blocked) > 0 {
			clean = false
			return vh.Failf("blocked-after-cancel", "connection #%d: threads %v still blocked after cancel+InterruptGetNext", ci, res.Blocked), keys(lab), scheds
		}
		if bad != nil {
			return bad, keys(lab), scheds
		}
		for _, id := range got {
			if id.Id < resume.Id || (id.Id == resume.Id && id.Reply <= resume.Reply) {
				return vh.Failf("delivered-at-or-before-resume-point", "connection #%d resumed at %d.%d on node %d and was sent %d.%d again (consumed on this connection: %v)", ci, resume.Id, resume.Reply, conn.Node%len(nodes), id.Id, id.Reply, got), keys(lab), scheds
			}
		}
		consumed = append(consumed, got...)
		if len(got) > 0 {
			lastSeen = got[len(got)-1]
		}
	}
	// the concatenation is exactly the session's message sequence
	for k := 0; k < len(consumed) || k < len(expected); k++ {
		if k >= len(consumed) {
			return vh.Failf("message-missing", "the client received %d of its %d messages; first missing: %d.%d (received: %v)", len(consumed), len(expected), expected[k].Id, expected[k].Reply, consumed), keys(lab), scheds
		}
		if k >= len(expected) {
			return vh.Failf("message-duplicated-or-foreign", "the client received more than its %d messages: extra %d.%d (received: %v)", len(expected), consumed[k].Id, consumed[k].Reply, consumed), keys(lab), scheds
		}
		if consumed[k] != expected[k] {
			sig := "message-missing"
			for j := 0; j < k; j++ {
				if consumed[j] == consumed[k] {
					sig = "message-duplicated-or-foreign"
				}
			}
			return vh.Failf(sig, "position %d of the client's stream is %d.%d, expected %d.%d (received: %v, expected: %v)", k, consumed[k].Id, consumed[k].Reply, expected[k].Id, expected[k].Reply, consumed, expected), keys(lab), scheds
		}
	}
	return nil, keys(lab), scheds
}

func keys(m map[string]bool) []string {
	var l []string
	for k := range m {
		l = append(l, k)
	}
	return l
}

func c04Gen(t *rapid.T) *c04Case {
	c := &c04Case{}
	nb := rapid.IntRange(1, 7).Draw(t, "nbatches")
	id := uint64(1)
	total := 0
	for k := 0; k < nb; k++ {
		id += uint64(rapid.IntRange(1, 3).Draw(t, "idstep"))
		b := c04Batch{Id: id}
		nr := rapid.IntRange(1, 4).Draw(t, "replies")
		for r := 0; r < nr; r++ {
			var to []uint64
			switch rapid.IntRange(0, 5).Draw(t, "rcpt") {
			case 0:
				to = []uint64{2}
			case 1:
				to = []uint64{2, 3}
			case 2:
				to = []uint64{c04Session, 2}
			default:
				to = []uint64{c04Session}
			}
			for _, x := range to {
				if x == c04Session {
					total++
				}
			}
			b.To = append(b.To, to)
		}
		c.Batches = append(c.Batches, b)
	}
	nn := rapid.IntRange(1, 3).Draw(t, "nnodes")
	for k := 0; k < nn; k++ {
		c.Applied = append(c.Applied, rapid.IntRange(0, nb).Draw(t, "applied"))
	}
	nc := rapid.IntRange(1, 4).Draw(t, "nconns")
	for k := 0; k < nc; k++ {
		conn := c04Conn{Node: rapid.IntRange(0, nn-1).Draw(t, "node"), Feed: rapid.IntRange(0, nb).Draw(t, "feed"), Compact: rapid.IntRange(0, 2).Draw(t, "compact")}
		conn.Quota = rapid.IntRange(0, total+1).Draw(t, "quota")
		if k == nc-1 {
			conn.Quota = -1
		}
		c.Conns = append(c.Conns, conn)
	}
	return c
}

func TestVerifC04(t *testing.T) {
	rec := vh.New("C04", "TestVerifC04")
	defer rec.Flush()
	tmp, err := os.MkdirTemp("", "c04-")
	if err != nil {
		t.Fatal(err)
	}
	defer os.RemoveAll(tmp)
	if vh.Replaying() {
		for _, ff := range vh.ReplayFiles("C04", "TestVerifC04") {
			var c c04Case
			if err := json.Unmarshal(ff.Case, &c); err != nil {
				t.Fatalf("bad replay case: %v", err)
			}
			if f, _, _ := c04Run(&c, nil, tmp); f != nil && !rec.Known(f.Signature) {
				rec.WriteFail(f, &c)
				t.Fatalf("%v", f)
			}
		}
		return
	}
	rapid.Check(t, func(rt *rapid.T) {
		c := c04Gen(rt)
		f, labels, scheds := c04Run(c, func(conn, n int) int { return rapid.IntRange(0, n-1).Draw(rt, "sched") }, tmp)
		for k := range scheds {
			if k < len(c.Conns) {
				c.Conns[k].Schedule = scheds[k]
			}
		}
		nt := false
		for _, l := range labels {
			if strings.Contains(l, "reconnect") {
				nt = true
			}
		}
		rec.Case(vh.Fingerprint(c), nt && len(c.Conns) >= 2, labels, func() interface{} { return c })
		if f != nil {
			if f.Signature == "harness" {
				rt.Skip(f.Message)
			}
			if rec.Known(f.Signature) {
				return
			}
			rec.WriteFail(f, c)
			rt.Fatalf("%v", f)
		}
	})
}

// c04GetMessages calls the unexported getMessages through its method expression, so that the
// harness still builds when a change hands the function the session as well (the handler knows
// it; seed C04m did exactly that). Any other signature is a harness that no longer fits the code:
// the unit stops without a verdict.
func c04GetMessages(api *HTTP, ctx context.Context, resume robust.Id, ch chan []*robust.Message) {
	var f interface{} = (*HTTP).getMessages
	switch g := f.(type) {
	case func(*HTTP, context.Context, robust.Id, chan<- []*robust.Message):
		g(api, ctx, resume, ch)
	case func(*HTTP, context.Context, robust.Id, robust.Id, chan<- []*robust.Message):
		g(api, ctx, robust.Id{Id: c04Session}, resume, ch)
	default:
		panic(fmt.Sprintf("harness: getMessages has a signature this unit does not know: %T", f))
	}
}
