package outputstream

// C08: next-message lookup of the output stream under every interleaving.
// The package is compiled against verif.local/verif/vsync instead of sync
// (overlay, see DESIGN.md 2.1), so that the interleaving of the lock-protected
// steps of Add / Delete / GetNext / Get / InterruptGetNext is chosen by the
// harness: drawn by rapid, read from a replay file, or enumerated by DFS.

import (
	"context"
	"encoding/json"
	"fmt"
	"io"
	"log"
	"os"
	"reflect"
	"sort"
	"strings"
	"testing"

	"github.com/robustirc/robustirc/internal/robust"
	"pgregory.net/rapid"
	"verif.local/verif/vh"
	"verif.local/verif/vsync"
)

func init() { log.SetOutput(io.Discard) }

type c08Op struct {
	Kind string `json:"op"` // add | delete | getnext | get | cancel
	Id   uint64 `json:"id,omitempty"`
	N    int    `json:"replies,omitempty"` // for add
	// for cancel: which reader thread's context to cancel (followed by InterruptGetNext)
	Target int `json:"target,omitempty"`
}

type c08Case struct {
	Setup   []c08Op   `json:"setup"`   // executed sequentially before the run
	Threads [][]c08Op `json:"threads"` // thread 0 is the writer (FSM goroutine), the others are readers / cancellers
	Choices []int     `json:"schedule"`
}

func c08Batch(id uint64, n int) []Message {
	var ms []Message
	for r := 1; r <= n; r++ {
		ms = append(ms, Message{Id: robust.Id{Id: id, Reply: uint64(r)}, Data: fmt.Sprintf("reply %d.%d", id, r), InterestingFor: map[uint64]bool{id % 3: true, 7: true}})
	}
	return ms
}

type c08State map[uint64]int // id -> number of replies (content is a function of both)

func (s c08State) clone() c08State {
	c := c08State{}
	for k, v := range s {
		c[k] = v
	}
	return c
}

func (s c08State) succ(x uint64) (uint64, bool) {
	var best uint64
	found := false
	for id := range s {
		if id > x && (!found || id < best) {
			best, found = id, true
		}
	}
	return best, found
}

func (s c08State) max() uint64 {
	var m uint64
	for id := range s {
		if id > m {
			m = id
		}
	}
	return m
}

func sameBatch(got []Message, id uint64, n int) bool {
	want := c08Batch(id, n)
	if len(got) != len(want) {
		return false
	}
	for k := range got {
		if got[k].Id != want[k].Id || got[k].Data != want[k].Data || !reflect.DeepEqual(got[k].InterestingFor, want[k].InterestingFor) {
			return false
		}
	}
	return true
}

type c08Result struct {
	thread, opIdx int
	op            c08Op
	a, b          int // versions spanned
	msgs          []Message
	ok            bool
	finished      bool
	cancelledAt   int // version index at which the context was cancelled, -1 if never
}

func batchIDs(ms []Message) string {
	if len(ms) == 0 {
		return "<empty>"
	}
	return fmt.Sprintf("batch %d (%d replies)", ms[0].Id.Id, len(ms))
}

// c08Execute runs one case. choose == nil replays c.Choices. It returns the failure and whether the case was non-trivial.
func c08Execute(c *c08Case, choose func(n int) int, tmp string) (fail *vh.Failure, nontrivial bool, schedule []int) {
	o, err := NewOutputStream(tmp)
	if err != nil {
		return vh.Failf("harness", "NewOutputStream: %v", err), false, nil
	}
	clean := true
	defer func() {
		if clean {
			o.Close()
		}
	}()
	versions := []c08State{{}}
	cur := func() c08State { return versions[len(versions)-1] }
	apply := func(op c08Op) {
		s := cur().clone()
		switch op.Kind {
		case "add":
			s[op.Id] = op.N
		case "delete":
			delete(s, op.Id)
		}
		versions = append(versions, s)
	}
	for _, op := range c.Setup {
		switch op.Kind {
		case "add":
			if err := o.Add(c08Batch(op.Id, op.N)); err != nil {
				return vh.Failf("add-error", "Add: %v", err), false, nil
			}
		case "delete":
			if err := o.Delete(robust.Id{Id: op.Id}); err != nil {
				return vh.Failf("delete-error", "Delete: %v", err), false, nil
			}
		}
		apply(op)
	}
	base := len(versions) - 1

	nthreads := len(c.Threads)
	ctxs := make([]context.Context, nthreads)
	cancels := make([]context.CancelFunc, nthreads)
	cancelledAt := make([]int, nthreads)
	for k := range ctxs {
		ctxs[k], cancels[k] = context.WithCancel(context.Background())
		cancelledAt[k] = -1
	}
	var results []*c08Result
	pendingMut := map[int]*c08Op{} // thread -> mutation in flight
	inflight := map[int]*c08Result{}
	var quiescent *c08State
	var quiescentPending []*c08Result
	finisherStarted := false

	vsync.S.OnGrant = func(th int, op vsync.OpKind, m *vsync.RWMutex) {
		if op == vsync.OpUnlock && m == &o.messagesMu {
			if mut := pendingMut[th]; mut != nil {
				apply(*mut)
				delete(pendingMut, th)
			}
		}
	}
	var bodies []func()
	var names []string
	for ti := range c.Threads {
		ti := ti
		names = append(names, fmt.Sprintf("T%d", ti))
		bodies = append(bodies, func() {
			for oi, op := range c.Threads[ti] {
				op := op
				switch op.Kind {
				case "add":
					pendingMut[ti] = &op
					if err := o.Add(c08Batch(op.Id, op.N)); err != nil {
						panic(fmt.Sprintf("Add returned %v", err))
					}
				case "delete":
					pendingMut[ti] = &op
					if err := o.Delete(robust.Id{Id: op.Id}); err != nil {
						panic(fmt.Sprintf("Delete returned %v", err))
					}
				case "getnext":
					r := &c08Result{thread: ti, opIdx: oi, op: op, a: len(versions) - 1, cancelledAt: -1}
					results = append(results, r)
					inflight[ti] = r
					r.msgs = o.GetNext(ctxs[ti], robust.Id{Id: op.Id})
					r.b = len(versions) - 1
					r.finished = true
					r.cancelledAt = cancelledAt[ti]
					delete(inflight, ti)
				case "get":
					r := &c08Result{thread: ti, opIdx: oi, op: op, a: len(versions) - 1, cancelledAt: -1}
					results = append(results, r)
					r.msgs, r.ok = o.Get(robust.Id{Id: op.Id})
					r.b = len(versions) - 1
					r.finished = true
				case "cancel":
					if cancelledAt[op.Target] < 0 {
						cancelledAt[op.Target] = len(versions) - 1
					}
					cancels[op.Target]()
					o.InterruptGetNext()
				}
			}
		})
	}
	// the finisher only runs when nothing else can: it observes the quiescent
	// state, then cancels every context and interrupts, as a closing handler does
	names = append(names, "finisher")
	bodies = append(bodies, func() {
		finisherStarted = true
		q := cur().clone()
		quiescent = &q
		for _, r := range inflight {
			if cancelledAt[r.thread] < 0 { // a cancelled reader may stay blocked until it is woken
				quiescentPending = append(quiescentPending, r)
			}
		}
		for k := range cancels {
			if cancelledAt[k] < 0 {
				cancelledAt[k] = len(versions) - 1
			}
			cancels[k]()
		}
		o.InterruptGetNext()
	})
	pos := 0
	pick := func(n int) int {
		// while the finisher has not started it is the last enabled thread: keep it for last
		if !finisherStarted {
			n--
		}
		if n <= 1 {
			return 0
		}
		var ch int
		if choose != nil {
			ch = choose(n)
		} else if pos < len(c.Choices) {
			ch = c.Choices[pos] % n
		}
		pos++
		schedule = append(schedule, ch)
		return ch
	}
	res := vsync.S.Run(names, bodies, pick, 20000)
	for _, cf := range cancels {
		cf()
	}

	describe := func() string {
		var b strings.Builder
		for _, st := range res.Trace {
			fmt.Fprintf(&b, "%s:%s ", names[st.Thread], st.Op)
		}
		s := b.String()
		if len(s) > 1500 {
			s = s[:1500] + "…"
		}
		return s
	}
	if len(res.Panics) > 0 {
		clean = false
		p := res.Panics[0]
		sig := "panic"
		if strings.Contains(p, "nil pointer") {
			sig = "panic-nil-dereference"
		}
		opname := "?"
		if th := res.PanicBy[0]; th < len(c.Threads) {
			for _, r := range results {
				if r.thread == th && !r.finished {
					opname = r.op.Kind
				}
			}
			if pendingMut[th] != nil {
				opname = pendingMut[th].Kind
			}
		}
		return vh.Failf(sig+"-in-"+opname, "%s; schedule: %s", p, describe()), true, schedule
	}
	if len(res.Blocked) > 0 {
		clean = false
		return vh.Failf("blocked-after-interrupt", "threads %v are still blocked after every context was cancelled and InterruptGetNext was called; schedule: %s", res.Blocked, describe()), true, schedule
	}
	// quiescence: no reader may have been blocked although a successor existed
	if quiescent != nil {
		for _, r := range quiescentPending {
			if id, ok := quiescent.succ(r.op.Id); ok {
				return vh.Failf("blocked-although-successor-exists", "GetNext(%d) of T%d was still blocked when nothing else could run, although batch %d exists; schedule: %s", r.op.Id, r.thread, id, describe()), true, schedule
			}
		}
	}
	for _, r := range results {
		if !r.finished {
			continue
		}
		if r.b > r.a {
			nontrivial = true
		}
		switch r.op.Kind {
		case "getnext":
			x := r.op.Id
			if len(r.msgs) == 0 {
				if r.cancelledAt < 0 {
					return vh.Failf("empty-without-cancel", "GetNext(%d) of T%d returned empty although its context was not cancelled; schedule: %s", x, r.thread, describe()), true, schedule
				}
				continue
			}
			id := r.msgs[0].Id.Id
			okv := false
			for v := r.a; v <= r.b && !okv; v++ {
				st := versions[v]
				if n, present := st[id]; present && sameBatch(r.msgs, id, n) {
					if s, ok := st.succ(x); ok && s == id {
						okv = true
					}
					// a client that is ahead of this node gets the next batch that is added (the only caller compensates)
					if _, inA := versions[r.a][id]; !inA && id <= x && x >= versions[r.a].max() {
						okv = true
					}
				}
			}
			if !okv {
				var want []string
				for v := r.a; v <= r.b; v++ {
					if s, ok := versions[v].succ(x); ok {
						want = append(want, fmt.Sprintf("v%d:%d", v-base, s))
					} else {
						want = append(want, fmt.Sprintf("v%d:none", v-base))
					}
				}
				return vh.Failf("wrong-successor", "GetNext(%d) of T%d returned %s; the smallest id greater than %d in the versions it spanned was %v; schedule: %s", x, r.thread, batchIDs(r.msgs), x, want, describe()), true, schedule
			}
		case "get":
			id := r.op.Id
			okv := false
			for v := r.a; v <= r.b && !okv; v++ {
				n, present := versions[v][id]
				if r.ok && present && sameBatch(r.msgs, id, n) {
					okv = true
				}
				if !r.ok && !present {
					okv = true
				}
			}
			if !okv {
				return vh.Failf("wrong-get", "Get(%d) of T%d returned %s, ok=%v, which matches no spanned version; schedule: %s", id, r.thread, batchIDs(r.msgs), r.ok, describe()), true, schedule
			}
		}
	}
	return nil, nontrivial, schedule
}

// ---- generation ----

func c08Gen(t *rapid.T, maxThreads, maxOps int) *c08Case {
	c := &c08Case{}
	next := uint64(0)
	var all []uint64
	live := []uint64{}
	newID := func() uint64 {
		next += uint64(rapid.IntRange(1, 3).Draw(t, "idstep"))
		all = append(all, next)
		return next
	}
	ns := rapid.IntRange(0, 4).Draw(t, "nsetup")
	for k := 0; k < ns; k++ {
		if len(live) > 0 && rapid.IntRange(0, 3).Draw(t, "setupdel") == 0 {
			// between reads batches may be deleted in any order
			j := rapid.IntRange(0, len(live)-1).Draw(t, "setupdelidx")
			c.Setup = append(c.Setup, c08Op{Kind: "delete", Id: live[j]})
			live = append(live[:j:j], live[j+1:]...)
			continue
		}
		id := newID()
		c.Setup = append(c.Setup, c08Op{Kind: "add", Id: id, N: rapid.IntRange(1, 4).Draw(t, "replies")})
		live = append(live, id)
	}
	nth := rapid.IntRange(2, maxThreads).Draw(t, "nthreads")
	c.Threads = make([][]c08Op, nth)
	// thread 0: the writer
	nw := rapid.IntRange(1, maxOps).Draw(t, "nwriterops")
	for k := 0; k < nw; k++ {
		switch rapid.IntRange(0, 5).Draw(t, "wop") {
		case 0, 1, 2:
			id := newID()
			c.Threads[0] = append(c.Threads[0], c08Op{Kind: "add", Id: id, N: rapid.IntRange(1, 4).Draw(t, "replies")})
			live = append(live, id)
		case 3, 4:
			if len(live) > 0 {
				c.Threads[0] = append(c.Threads[0], c08Op{Kind: "delete", Id: live[0]}) // oldest first while readers are active
				live = live[1:]
			} else {
				c.Threads[0] = append(c.Threads[0], c08Op{Kind: "delete", Id: next + 1000})
			}
		default:
			c.Threads[0] = append(c.Threads[0], c08Op{Kind: "delete", Id: next + 1000 + uint64(k)}) // non-existing
		}
	}
	pickX := func() uint64 {
		switch rapid.IntRange(0, 5).Draw(t, "xkind") {
		case 0:
			return 0
		case 1, 2, 3:
			if len(all) > 0 {
				return all[rapid.IntRange(0, len(all)-1).Draw(t, "xid")]
			}
			return 0
		case 4:
			return uint64(rapid.IntRange(0, int(next)+2).Draw(t, "xany"))
		default:
			return next + uint64(rapid.IntRange(1, 3).Draw(t, "xahead"))
		}
	}
	for ti := 1; ti < nth; ti++ {
		no := rapid.IntRange(1, maxOps).Draw(t, "nreaderops")
		for k := 0; k < no; k++ {
			switch rapid.IntRange(0, 6).Draw(t, "rop") {
			case 0, 1, 2, 3:
				c.Threads[ti] = append(c.Threads[ti], c08Op{Kind: "getnext", Id: pickX()})
			case 4:
				id := pickX()
				if id == 0 {
					id = 1
				}
				c.Threads[ti] = append(c.Threads[ti], c08Op{Kind: "get", Id: id})
			default:
				tgt := rapid.IntRange(1, nth-1).Draw(t, "canceltarget")
				c.Threads[ti] = append(c.Threads[ti], c08Op{Kind: "cancel", Target: tgt})
			}
		}
	}
	return c
}

func c08Labels(c *c08Case) []string {
	var l []string
	for _, th := range c.Threads[1:] {
		for _, op := range th {
			if op.Kind == "cancel" {
				l = append(l, "c08:with-cancel")
			}
		}
	}
	sort.Strings(l)
	return l
}

func TestVerifC08(t *testing.T) {
	rec := vh.New("C08", "TestVerifC08")
	defer rec.Flush()
	tmp, err := os.MkdirTemp("", "c08-")
	if err != nil {
		t.Fatal(err)
	}
	defer os.RemoveAll(tmp)
	if vh.Replaying() {
		for _, ff := range vh.ReplayFiles("C08", "TestVerifC08") {
			var c c08Case
			if err := json.Unmarshal(ff.Case, &c); err != nil {
				t.Fatalf("bad replay case: %v", err)
			}
			if f, _, _ := c08Execute(&c, nil, tmp); f != nil && !rec.Known(f.Signature) {
				rec.WriteFail(f, &c)
				t.Fatalf("%v", f)
			}
		}
		return
	}
	rapid.Check(t, func(rt *rapid.T) {
		c := c08Gen(rt, 3, 4)
		f, nt, sched := c08Execute(c, func(n int) int { return rapid.IntRange(0, n-1).Draw(rt, "sched") }, tmp)
		c.Choices = sched
		rec.Case(vh.Fingerprint(c), nt, c08Labels(c), func() interface{} { return c })
		if f != nil {
			if f.Signature == "harness" {
				rt.Skip(f.Message)
			}
			if rec.Known(f.Signature) {
				return
			}
			rec.WriteFail(f, c)
			rt.Fatalf("%v", f)
		}
	})
}

// TestVerifC08DFS enumerates every schedule of small generated programs.
func TestVerifC08DFS(t *testing.T) {
	rec := vh.New("C08", "TestVerifC08DFS")
	defer rec.Flush()
	tmp, err := os.MkdirTemp("", "c08d-")
	if err != nil {
		t.Fatal(err)
	}
	defer os.RemoveAll(tmp)
	if vh.Replaying() {
		for _, ff := range vh.ReplayFiles("C08", "TestVerifC08DFS") {
			var c c08Case
			if err := json.Unmarshal(ff.Case, &c); err != nil {
				t.Fatalf("bad replay case: %v", err)
			}
			if f, _, _ := c08Execute(&c, nil, tmp); f != nil && !rec.Known(f.Signature) {
				rec.WriteFail(f, &c)
				t.Fatalf("%v", f)
			}
		}
		return
	}
	maxSchedules := vh.EnvInt("VERIF_C08_MAXSCHED", 400)
	rapid.Check(t, func(rt *rapid.T) {
		c := c08Gen(rt, 2, 3)
		var stack, widths []int
		complete := false
		for runs := 0; runs < maxSchedules; runs++ {
			pos := 0
			var ws []int
			choose := func(n int) int {
				ch := 0
				if pos < len(stack) {
					ch = stack[pos]
				}
				ws = append(ws, n)
				pos++
				return ch
			}
			cc := *c
			f, nt, sched := c08Execute(&cc, choose, tmp)
			cc.Choices = sched
			rec.Case(vh.Fingerprint(&cc), nt, []string{"c08:dfs"}, func() interface{} { return &cc })
			if f != nil {
				if f.Signature == "harness" {
					rt.Skip(f.Message)
				}
				if !rec.Known(f.Signature) {
					rec.WriteFail(f, &cc)
					rt.Fatalf("%v", f)
				}
			}
			// backtrack
			stack = append([]int(nil), sched...)
			widths = ws
			k := len(stack) - 1
			for k >= 0 && stack[k]+1 >= widths[k] {
				k--
			}
			if k < 0 {
				complete = true
				break
			}
			stack = stack[:k+1]
			stack[k]++
		}
		if complete {
			rec.Label("c08:program-enumerated-exhaustively")
		} else {
			rec.Label("c08:program-enumeration-capped")
		}
	})
}

// ---- sequential programs against a sorted-map model (incl. cache churn) ----

type c08SeqCase struct {
	Ops []c08Op `json:"ops"` // add | delete | get | getnext | bulk (N batches)
}

func c08SeqRun(c *c08SeqCase, tmp string) (f *vh.Failure) {
	defer func() {
		if r := recover(); r != nil {
			f = vh.Failf("panic-sequential", "panic: %v", r)
		}
	}()
	o, err := NewOutputStream(tmp)
	if err != nil {
		return vh.Failf("harness", "%v", err)
	}
	defer o.Close()
	st := c08State{}
	for k, op := range c.Ops {
		switch op.Kind {
		case "add":
			if err := o.Add(c08Batch(op.Id, op.N)); err != nil {
				return vh.Failf("add-error", "op #%d: %v", k, err)
			}
			st[op.Id] = op.N
		case "bulk":
			for j := 0; j < op.N; j++ {
				id := op.Id + uint64(j)
				if err := o.Add(c08Batch(id, 1)); err != nil {
					return vh.Failf("add-error", "op #%d: %v", k, err)
				}
				st[id] = 1
				// touch it so that it enters the read cache
				o.Get(robust.Id{Id: id})
			}
			// the decoded-batch cache has been filled and evicted from several times: every id must
			// still resolve to its own batch, and every position to its own successor
			ids := make([]uint64, 0, len(st))
			for id := range st {
				ids = append(ids, id)
			}
			sort.Slice(ids, func(a, b int) bool { return ids[a] < ids[b] })
			for pass := 0; pass < 2; pass++ {
				for j, id := range ids {
					got, ok := o.Get(robust.Id{Id: id})
					if !ok || !sameBatch(got, id, st[id]) {
						return vh.Failf("wrong-get-sequential", "op #%d (sweep after %d batches were read, pass %d): Get(%d) = %s, %v; model: %d replies", k, op.N, pass, id, batchIDs(got), ok, st[id])
					}
					if j+1 < len(ids) {
						if nx := o.GetNext(context.Background(), robust.Id{Id: id}); !sameBatch(nx, ids[j+1], st[ids[j+1]]) {
							return vh.Failf("wrong-successor-sequential", "op #%d (sweep, pass %d): GetNext(%d) = %s, want batch %d", k, pass, id, batchIDs(nx), ids[j+1])
						}
					}
				}
			}
		case "delete":
			if err := o.Delete(robust.Id{Id: op.Id}); err != nil {
				return vh.Failf("delete-error", "op #%d: %v", k, err)
			}
			delete(st, op.Id)
		case "get":
			got, ok := o.Get(robust.Id{Id: op.Id})
			n, present := st[op.Id]
			if ok != present || (ok && !sameBatch(got, op.Id, n)) {
				return vh.Failf("wrong-get-sequential", "op #%d: Get(%d) = %s, %v; model: present=%v replies=%d", k, op.Id, batchIDs(got), ok, present, n)
			}
		case "getnext":
			want, ok := st.succ(op.Id)
			if !ok {
				continue // would block
			}
			got := o.GetNext(context.Background(), robust.Id{Id: op.Id})
			if !sameBatch(got, want, st[want]) {
				return vh.Failf("wrong-successor-sequential", "op #%d: GetNext(%d) = %s, want batch %d", k, op.Id, batchIDs(got), want)
			}
		}
	}
	return nil
}

func TestVerifC08Seq(t *testing.T) {
	rec := vh.New("C08", "TestVerifC08Seq")
	defer rec.Flush()
	tmp, err := os.MkdirTemp("", "c08s-")
	if err != nil {
		t.Fatal(err)
	}
	defer os.RemoveAll(tmp)
	if vh.Replaying() {
		for _, ff := range vh.ReplayFiles("C08", "TestVerifC08Seq") {
			var c c08SeqCase
			if err := json.Unmarshal(ff.Case, &c); err != nil {
				t.Fatalf("bad replay case: %v", err)
			}
			if f := c08SeqRun(&c, tmp); f != nil && !rec.Known(f.Signature) {
				rec.WriteFail(f, &c)
				t.Fatalf("%v", f)
			}
		}
		return
	}
	rapid.Check(t, func(rt *rapid.T) {
		c := &c08SeqCase{}
		next := uint64(0)
		var live, all []uint64
		n := rapid.IntRange(5, 60).Draw(rt, "nops")
		churn, delThenRead := false, false
		deleted := false
		for k := 0; k < n; k++ {
			pickAny := func() uint64 {
				if len(all) > 0 && rapid.IntRange(0, 4).Draw(rt, "known") != 0 {
					return all[rapid.IntRange(0, len(all)-1).Draw(rt, "anyid")]
				}
				return uint64(rapid.IntRange(0, int(next)+3).Draw(rt, "rawid"))
			}
			switch rapid.IntRange(0, 20).Draw(rt, "op") {
			case 0, 1, 2, 3, 4, 5:
				next += uint64(rapid.IntRange(1, 3).Draw(rt, "step"))
				c.Ops = append(c.Ops, c08Op{Kind: "add", Id: next, N: rapid.IntRange(1, 4).Draw(rt, "replies")})
				live = append(live, next)
				all = append(all, next)
			case 6, 7, 8, 9:
				if len(live) == 0 {
					c.Ops = append(c.Ops, c08Op{Kind: "delete", Id: next + 50})
					break
				}
				j := 0 // oldest
				switch rapid.IntRange(0, 3).Draw(rt, "which") {
				case 1:
					j = len(live) - 1 // tail
				case 2:
					j = rapid.IntRange(0, len(live)-1).Draw(rt, "middle")
				}
				c.Ops = append(c.Ops, c08Op{Kind: "delete", Id: live[j]})
				live = append(live[:j:j], live[j+1:]...)
				deleted = true
			case 10, 11, 12:
				id := pickAny()
				if id == 0 {
					id = 1
				}
				c.Ops = append(c.Ops, c08Op{Kind: "get", Id: id})
			case 13:
				if rapid.IntRange(0, 5).Draw(rt, "bulk") == 0 {
					c.Ops = append(c.Ops, c08Op{Kind: "bulk", Id: next + 1, N: 1100})
					for j := 0; j < 1100; j++ {
						next++
						if j%100 == 0 {
							live = append(live, next)
							all = append(all, next)
						}
					}
					// ids not tracked in live are simply never deleted
					churn = true
				}
			default:
				c.Ops = append(c.Ops, c08Op{Kind: "getnext", Id: pickAny()})
				if deleted {
					delThenRead = true
				}
			}
		}
		var labels []string
		if churn {
			labels = append(labels, "c08:cache-churn")
		}
		rec.Case(vh.Fingerprint(c), delThenRead, labels, func() interface{} { return c })
		if f := c08SeqRun(c, tmp); f != nil {
			if f.Signature == "harness" {
				rt.Skip(f.Message)
			}
			if rec.Known(f.Signature) {
				return
			}
			rec.WriteFail(f, c)
			rt.Fatalf("%v", f)
		}
	})
}
