package raftstore

// C18 (unit logentries): a log entry written by any writer of the store is
// decoded identically by GetLog and by raftlog.FromBytes (the decoder the
// conversion, the dump tool and the snapshot code share).

import (
	"encoding/binary"
	"encoding/json"
	"fmt"
	"os"
	"path/filepath"
	"testing"

	"github.com/hashicorp/raft"
	"github.com/robustirc/robustirc/internal/raftlog"
	"github.com/robustirc/robustirc/internal/robust"
	"pgregory.net/rapid"
	"verif.local/verif/vh"
)

type c18LCase struct {
	Proto  bool     `json:"store_in_protobuf_mode"`
	Writer string   `json:"writer"`
	Entry  c09Entry `json:"entry"`
	// Convert: the store is closed and opened again in protobuf mode (the JSON -> protobuf
	// conversion is one more writer) before the entry is read back
	Convert bool   `json:"reopen_in_protobuf_mode"`
	Offset  uint64 `json:"message_offset,omitempty"`
}

func c18LCheck(c c18LCase, dir string) (f *vh.Failure) {
	defer func() {
		if r := recover(); r != nil {
			f = vh.Failf("logentry-codec-panic", "panic: %v", r)
		}
	}()
	robust.MessageOffset = c.Offset
	s, err := NewLevelDBStore(dir, true, c.Proto)
	if err != nil {
		return vh.Failf("open-error", "%v", err)
	}
	defer func() { s.Close() }()
	switch c.Writer {
	case "StoreLogs":
		err = s.StoreLogs([]*raft.Log{c.Entry.raftLog()})
	case "StoreLog":
		err = s.StoreLog(c.Entry.raftLog())
	case "StoreLogProto":
		err = s.StoreLogProto(c.Entry.protoLog())
	}
	if err != nil {
		return vh.Failf("write-error", "%s: %v", c.Writer, err)
	}
	me := &c09ModelEntry{e: c.Entry}
	if c.Convert {
		if err := s.Close(); err != nil {
			return vh.Failf("close-error", "%v", err)
		}
		if s, err = NewLevelDBStore(dir, false, true); err != nil {
			return vh.Failf("open-error", "reopen in protobuf mode: %v", err)
		}
		// the conversion may re-encode the payload of a command entry: same message, other bytes
		me.mayConvert = c.Entry.Type == uint8(raft.LogCommand)
	}
	var viaGet raft.Log
	if err := s.GetLog(c.Entry.Index, &viaGet); err != nil {
		return vh.Failf("getlog-error", "GetLog: %v", err)
	}
	if f := checkEntry(me, &viaGet, fmt.Sprintf("%s then GetLog", c.Writer)); f != nil {
		return f
	}
	key := make([]byte, 8)
	binary.BigEndian.PutUint64(key, c.Entry.Index)
	raw, err := s.db.Get(key, nil)
	if err != nil {
		return vh.Failf("raw-read-error", "%v", err)
	}
	viaFB, err := raftlog.FromBytes(raw)
	if err != nil {
		return vh.Failf("frombytes-error", "raftlog.FromBytes: %v", err)
	}
	if f := checkEntry(me, viaFB, fmt.Sprintf("%s then raftlog.FromBytes", c.Writer)); f != nil {
		return f
	}
	return nil
}

func TestVerifC18LogEntries(t *testing.T) {
	rec := vh.New("C18", "TestVerifC18LogEntries")
	defer rec.Flush()
	base, err := os.MkdirTemp("", "c18l-")
	if err != nil {
		t.Fatal(err)
	}
	defer os.RemoveAll(base)
	n := 0
	runOne := func(c c18LCase) *vh.Failure {
		n++
		dir := filepath.Join(base, fmt.Sprint(n))
		defer os.RemoveAll(dir)
		return c18LCheck(c, dir)
	}
	if vh.Replaying() {
		for _, ff := range vh.ReplayFiles("C18", "TestVerifC18LogEntries") {
			var c c18LCase
			if err := json.Unmarshal(ff.Case, &c); err != nil {
				t.Fatalf("bad replay case: %v", err)
			}
			if f := runOne(c); f != nil && !rec.Known(f.Signature) {
				rec.WriteFail(f, c)
				t.Fatalf("%v", f)
			}
		}
		return
	}
	rapid.Check(t, func(rt *rapid.T) {
		c := c18LCase{Proto: rapid.Bool().Draw(rt, "protomode"), Writer: rapid.SampledFrom([]string{"StoreLogs", "StoreLog", "StoreLogProto"}).Draw(rt, "writer")}
		c.Entry = genEntry(rt, genIndex(rt, nil))
		c.Convert = rapid.IntRange(0, 2).Draw(rt, "convert") == 0
		c.Offset = rapid.SampledFrom(c09Offsets).Draw(rt, "message_offset")
		nz := 0
		for _, b := range []bool{c.Entry.Term != 0, len(c.Entry.Ext) > 0, c.Entry.AppendedNs != 0, len(c.Entry.Data) > 0, c.Entry.Type != 0} {
			if b {
				nz++
			}
		}
		labels := []string{"c18:writer-" + c.Writer}
		if c.Convert {
			labels = append(labels, "c18:read-after-conversion")
		}
		rec.Case(vh.Fingerprint(c), nz >= 3, labels, func() interface{} { return c })
		if f := runOne(c); f != nil {
			if rec.Known(f.Signature) {
				return
			}
			rec.WriteFail(f, c)
			rt.Fatalf("%v", f)
		}
	})
}
