package raftstore

// C09: the LevelDB store honours raft's LogStore/StableStore contracts, checked
// with generated operation sequences against an in-memory map, including
// close/reopen in either encoding, JSON->protobuf conversion, and kill/reopen
// of a child process at a generated point.

import (
	"bufio"
	"bytes"
	"encoding/json"
	"fmt"
	"io"
	"log"
	"os"
	"os/exec"
	"path/filepath"
	"reflect"
	"runtime/debug"
	"sort"
	"strings"
	"syscall"
	"testing"
	"time"

	"github.com/golang/protobuf/proto"
	"github.com/hashicorp/raft"
	"github.com/robustirc/robustirc/internal/robust"
	"google.golang.org/protobuf/types/known/timestamppb"
	"pgregory.net/rapid"
	"verif.local/verif/vh"

	pb "github.com/robustirc/robustirc/internal/proto"
)

func init() { log.SetOutput(io.Discard) }

type c09Entry struct {
	Index      uint64 `json:"index"`
	Term       uint64 `json:"term"`
	Type       uint8  `json:"type"`
	Data       []byte `json:"data"`
	Ext        []byte `json:"ext,omitempty"`
	AppendedNs int64  `json:"appended_ns"` // 0 = zero time
}

type c09Op struct {
	Kind    string     `json:"op"`
	Entries []c09Entry `json:"entries,omitempty"`
	Min     uint64     `json:"min,omitempty"`
	Max     uint64     `json:"max,omitempty"`
	Index   uint64     `json:"index,omitempty"`
	Key     []byte     `json:"key,omitempty"`
	Val     []byte     `json:"val,omitempty"`
	U       uint64     `json:"u,omitempty"`
}

type c09Case struct {
	// VerifyEvery: the store is compared with the model after every VerifyEvery-th operation and at
	// the end (0 or 1 = after every operation). Reading is not neutral: a store may cache what a
	// read computed, so a run that reads everything after every write can mask what raft would see
	// (raft calls FirstIndex once per snapshot, not after every append).
	VerifyEvery int     `json:"verify_every,omitempty"`
	Proto       bool    `json:"start_in_protobuf_mode"`
	Ops         []c09Op `json:"ops"`
	KillAt      int     `json:"kill_after_acks,omitempty"`
	// KillDelayUs: the SIGKILL is sent this long after the acknowledgement was read, i.e. while the
	// next operation is running (a range deletion over a long log takes milliseconds)
	KillDelayUs int `json:"kill_delay_us,omitempty"`
	// Offset is robust.MessageOffset for this case: 0 as in the package's own tests, or the flag
	// default of a real node (ids of id-less messages default to offset + raft index)
	Offset uint64 `json:"message_offset,omitempty"`
}

var c09Offsets = []uint64{0, 4648398125000000000}

func (e c09Entry) raftLog() *raft.Log {
	l := &raft.Log{Index: e.Index, Term: e.Term, Type: raft.LogType(e.Type), Data: e.Data, Extensions: e.Ext}
	if e.AppendedNs != 0 {
		l.AppendedAt = time.Unix(0, e.AppendedNs)
	}
	return l
}

func (e c09Entry) protoLog() *pb.RaftLog {
	l := e.raftLog()
	return &pb.RaftLog{Index: l.Index, Term: l.Term, Type: pb.RaftLog_LogType(l.Type), Data: l.Data, Extensions: l.Extensions, AppendedAt: timestamppb.New(l.AppendedAt)}
}

type c09ModelEntry struct {
	e          c09Entry
	wrapJSON   bool // the entry itself was written in the JSON encoding
	mayConvert bool // an open in protobuf mode may have re-encoded the payload
}

type c09Model struct {
	logs   map[uint64]*c09ModelEntry
	stable map[string][]byte
	ustab  map[string]uint64
}

func newC09Model() *c09Model {
	return &c09Model{logs: map[uint64]*c09ModelEntry{}, stable: map[string][]byte{}, ustab: map[string]uint64{}}
}

func (m *c09Model) clone() *c09Model {
	c := newC09Model()
	for k, v := range m.logs {
		cp := *v
		c.logs[k] = &cp
	}
	for k, v := range m.stable {
		c.stable[k] = v
	}
	for k, v := range m.ustab {
		c.ustab[k] = v
	}
	return c
}

func (m *c09Model) first() uint64 {
	var min uint64
	for k := range m.logs {
		if min == 0 || k < min {
			min = k
		}
	}
	return min
}

func (m *c09Model) last() uint64 {
	var max uint64
	for k := range m.logs {
		if k > max {
			max = k
		}
	}
	return max
}

// apply updates the model for a mutating operation.
func (m *c09Model) apply(op c09Op, protoMode *bool) {
	switch op.Kind {
	case "storelogs", "storelog", "storeproto":
		for _, e := range op.Entries {
			m.logs[e.Index] = &c09ModelEntry{e: e, wrapJSON: op.Kind != "storeproto" && !*protoMode}
		}
	case "delrange":
		for k := range m.logs {
			if k >= op.Min && k <= op.Max {
				delete(m.logs, k)
			}
		}
	case "set":
		m.stable[string(op.Key)] = op.Val
	case "setu":
		m.ustab[string(op.Key)] = op.U
	case "reopen_proto":
		*protoMode = true
		fallthrough
	case "reopen":
		if *protoMode {
			for _, me := range m.logs {
				// ConvertToProto re-encodes the payload of a command entry when the entry or
				// its payload is still JSON (the id then defaults to the index: same message)
				if me.e.Type == uint8(raft.LogCommand) && (me.wrapJSON || (len(me.e.Data) > 0 && me.e.Data[0] != 'p')) {
					me.mayConvert = true
				}
			}
		}
	}
}

func sameMessage(a, b []byte, idx uint64) (ok bool) {
	defer func() {
		if recover() != nil {
			ok = false
		}
	}()
	ma := robust.NewMessageFromBytes(a, robust.IdFromRaftIndex(idx))
	mb := robust.NewMessageFromBytes(b, robust.IdFromRaftIndex(idx))
	return reflect.DeepEqual(ma, mb)
}

func checkEntry(me *c09ModelEntry, got *raft.Log, what string) *vh.Failure {
	want := me.e.raftLog()
	if got.Index != want.Index || got.Term != want.Term || got.Type != want.Type {
		return vh.Failf("entry-header-differs", "%s: stored index/term/type %d/%d/%d, read back %d/%d/%d", what, want.Index, want.Term, want.Type, got.Index, got.Term, got.Type)
	}
	if !bytes.Equal(got.Extensions, want.Extensions) {
		return vh.Failf("entry-extensions-differ", "%s: extensions stored %x, read back %x", what, want.Extensions, got.Extensions)
	}
	if !got.AppendedAt.Equal(want.AppendedAt) {
		return vh.Failf("entry-appended-at-differs", "%s: append time stored %v, read back %v", what, want.AppendedAt, got.AppendedAt)
	}
	if !bytes.Equal(got.Data, want.Data) {
		if me.mayConvert && sameMessage(got.Data, want.Data, want.Index) {
			return nil
		}
		return vh.Failf("entry-data-differs", "%s: data stored %q, read back %q (conversion possible: %v)", what, want.Data, got.Data, me.mayConvert)
	}
	return nil
}

// verify compares every observable of the store with the model.
func verifyStore(s *LevelDBStore, m *c09Model, what string, probe []uint64) *vh.Failure {
	first, err := s.FirstIndex()
	if err != nil {
		return vh.Failf("firstindex-error", "%s: FirstIndex: %v", what, err)
	}
	if first != m.first() {
		return vh.Failf("firstindex-wrong", "%s: FirstIndex = %d, model says %d (log indexes %v)", what, first, m.first(), sortedKeys(m))
	}
	last, err := s.LastIndex()
	if err != nil {
		return vh.Failf("lastindex-error", "%s: LastIndex: %v", what, err)
	}
	if last != m.last() {
		return vh.Failf("lastindex-wrong", "%s: LastIndex = %d, model says %d (log indexes %v)", what, last, m.last(), sortedKeys(m))
	}
	idx := map[uint64]bool{}
	for k := range m.logs {
		idx[k] = true
	}
	for _, p := range probe {
		idx[p] = true
	}
	for k := range idx {
		var got raft.Log
		err := s.GetLog(k, &got)
		me, present := m.logs[k]
		switch {
		case present && err != nil:
			return vh.Failf("getlog-missing", "%s: GetLog(%d) = %v but the entry was stored and not deleted", what, k, err)
		case !present && err == nil:
			return vh.Failf("getlog-resurrected", "%s: GetLog(%d) returned an entry (%+v) that was never stored or was deleted", what, k, got)
		case !present && err != raft.ErrLogNotFound:
			return vh.Failf("getlog-wrong-error", "%s: GetLog(%d) of a missing entry = %v, want raft.ErrLogNotFound", what, k, err)
		case present:
			if f := checkEntry(me, &got, fmt.Sprintf("%s: GetLog(%d)", what, k)); f != nil {
				return f
			}
		}
	}
	for k, v := range m.stable {
		got, err := s.Get([]byte(k))
		if err != nil || !bytes.Equal(got, v) {
			return vh.Failf("stable-get-wrong", "%s: Get(%q) = %x, %v; last written %x", what, k, got, err, v)
		}
	}
	for k, v := range m.ustab {
		got, err := s.GetUint64([]byte(k))
		if err != nil || got != v {
			return vh.Failf("stable-getuint64-wrong", "%s: GetUint64(%q) = %d, %v; last written %d", what, k, got, err, v)
		}
	}
	return nil
}

func sortedKeys(m *c09Model) []uint64 {
	var k []uint64
	for x := range m.logs {
		k = append(k, x)
	}
	sort.Slice(k, func(a, b int) bool { return k[a] < k[b] })
	if len(k) > 12 {
		k = k[:12]
	}
	return k
}

// execOp runs one operation against the store; reopen operations return the new store.
func execOp(s *LevelDBStore, dir string, op c09Op, protoMode *bool) (*LevelDBStore, error) {
	switch op.Kind {
	case "storelogs":
		var ls []*raft.Log
		for _, e := range op.Entries {
			ls = append(ls, e.raftLog())
		}
		return s, s.StoreLogs(ls)
	case "storelog":
		return s, s.StoreLog(op.Entries[0].raftLog())
	case "storeproto":
		return s, s.StoreLogProto(op.Entries[0].protoLog())
	case "delrange":
		return s, s.DeleteRange(op.Min, op.Max)
	case "set":
		return s, s.Set(op.Key, op.Val)
	case "setu":
		return s, s.SetUint64(op.Key, op.U)
	case "reopen_proto":
		*protoMode = true
		fallthrough
	case "reopen":
		if err := s.Close(); err != nil {
			return nil, err
		}
		return NewLevelDBStore(dir, false, *protoMode)
	case "first", "last", "get", "getstable", "getu":
		return s, nil // pure reads: verified by verifyStore after every step
	}
	return s, fmt.Errorf("unknown op %q", op.Kind)
}

func c09Run(c c09Case, dir string) (f *vh.Failure) {
	defer func() {
		if r := recover(); r != nil {
			st := string(debug.Stack())
			if len(st) > 1800 {
				st = st[:1800]
			}
			f = vh.Failf("store-panic", "panic: %v\n%s", r, st)
		}
	}()
	robust.MessageOffset = c.Offset
	protoMode := c.Proto
	s, err := NewLevelDBStore(dir, true, protoMode)
	if err != nil {
		return vh.Failf("open-error", "open: %v", err)
	}
	defer func() {
		if s != nil {
			s.Close()
		}
	}()
	m := newC09Model()
	var probes []uint64
	for k, op := range c.Ops {
		for _, e := range op.Entries {
			probes = append(probes, e.Index, e.Index+1)
		}
		if op.Index != 0 {
			probes = append(probes, op.Index)
		}
		s, err = execOp(s, dir, op, &protoMode)
		if err != nil {
			return vh.Failf("op-error:"+op.Kind, "op #%d %s: %v", k, op.Kind, err)
		}
		pm := protoMode
		m.apply(op, &pm)
		if c.VerifyEvery > 1 && (k+1)%c.VerifyEvery != 0 && k != len(c.Ops)-1 {
			continue
		}
		if f := verifyStore(s, m, fmt.Sprintf("after op #%d (%s)", k, op.Kind), probes); f != nil {
			return f
		}
	}
	return nil
}

// ---- generators ----

func genMessageBytes(t *rapid.T, index uint64) []byte {
	m := robust.Message{
		Id:              robust.Id{Id: rapid.OneOf(rapid.Just(uint64(0)), rapid.Just(index), rapid.Uint64()).Draw(t, "msgid")},
		Session:         robust.Id{Id: rapid.Uint64Range(0, 50).Draw(t, "session")},
		Type:            robust.Type(rapid.IntRange(0, 8).Draw(t, "mtype")),
		Data:            rapid.StringN(0, 20, 40).Draw(t, "mdata"),
		UnixNano:        rapid.OneOf(rapid.Just(int64(0)), rapid.Int64Range(1400000000e9, 1900000000e9)).Draw(t, "nano"),
		ClientMessageId: rapid.Uint64Range(0, 5).Draw(t, "cmid"),
		Revision:        rapid.Uint64Range(0, 3).Draw(t, "rev"),
		RemoteAddr:      rapid.SampledFrom([]string{"", "10.0.0.1"}).Draw(t, "addr"),
	}
	if rapid.Bool().Draw(t, "asproto") {
		b, err := proto.Marshal(m.ProtoMessage())
		if err != nil {
			t.Fatalf("marshal: %v", err)
		}
		return append([]byte{'p'}, b...)
	}
	b, _ := json.Marshal(&m)
	return b
}

func genEntry(t *rapid.T, index uint64) c09Entry {
	e := c09Entry{Index: index, Term: rapid.OneOf(rapid.Uint64Range(0, 5), rapid.Uint64()).Draw(t, "term")}
	e.Type = uint8(rapid.SampledFrom([]int{0, 0, 0, 1, 2, 3, 4, 5}).Draw(t, "ltype"))
	if e.Type == 0 {
		e.Data = genMessageBytes(t, index)
	} else {
		e.Data = rapid.SliceOfN(rapid.Byte(), 0, 24).Draw(t, "ldata")
	}
	if rapid.IntRange(0, 2).Draw(t, "hasext") == 0 {
		e.Ext = rapid.SliceOfN(rapid.Byte(), 1, 8).Draw(t, "ext")
	}
	e.AppendedNs = rapid.OneOf(rapid.Just(int64(0)), rapid.Int64Range(1, 1900000000e9)).Draw(t, "appended")
	return e
}

func genIndex(t *rapid.T, used []uint64) uint64 {
	switch rapid.IntRange(0, 9).Draw(t, "idxkind") {
	case 0:
		return rapid.Uint64Range(1, 1<<56).Draw(t, "bigidx")
	case 1, 2:
		if len(used) > 0 {
			return used[rapid.IntRange(0, len(used)-1).Draw(t, "usedidx")] // overwrite
		}
	case 3:
		return rapid.SampledFrom([]uint64{255, 256, 257, 65535, 65536, 1 << 32, (1 << 32) - 1}).Draw(t, "edgeidx")
	}
	return rapid.Uint64Range(1, 40).Draw(t, "smallidx")
}

var stableKeys = []string{"CurrentTerm", "LastVoteTerm", "LastVoteCand", "\x00\x00\x00\x00\x00\x00\x00\x05", "", "stablestore-", "\xff\xff"}

func genOps(t *rapid.T, n int, allowReopen bool, startProto bool) []c09Op {
	var ops []c09Op
	var used []uint64
	protoMode := startProto
	for k := 0; k < n; k++ {
		var op c09Op
		switch rapid.IntRange(0, 21).Draw(t, "opkind") {
		case 20:
			// a long contiguous run (raft appends in batches of up to 1024; truncation deletes long ranges)
			op.Kind = "storelogs"
			idx := genIndex(t, used)
			cnt := rapid.IntRange(90, 330).Draw(t, "bulk")
			for j := 0; j < cnt; j++ {
				e := c09Entry{Index: idx, Term: uint64(j % 3), Type: uint8(1 + j%4), Data: []byte{byte(j)}}
				op.Entries = append(op.Entries, e)
				if j%16 == 0 {
					used = append(used, idx)
				}
				idx++
			}
		case 21:
			// a long range deletion
			op.Kind = "delrange"
			if len(used) > 0 {
				op.Min = used[rapid.IntRange(0, len(used)-1).Draw(t, "longdela")]
			} else {
				op.Min = 1
			}
			op.Max = op.Min + uint64(rapid.IntRange(60, 500).Draw(t, "longdelspan"))
		case 0, 1, 2, 3:
			op.Kind = "storelogs"
			cnt := rapid.IntRange(1, 8).Draw(t, "batch")
			idx := genIndex(t, used)
			contiguous := rapid.IntRange(0, 3).Draw(t, "contiguous") != 0
			for j := 0; j < cnt; j++ {
				if !contiguous && j > 0 {
					idx = genIndex(t, used)
				}
				op.Entries = append(op.Entries, genEntry(t, idx))
				used = append(used, idx)
				idx++
			}
			// within one batch a repeated index keeps the last one, as a map does
		case 4, 5:
			op.Kind = "storelog"
			idx := genIndex(t, used)
			op.Entries = []c09Entry{genEntry(t, idx)}
			used = append(used, idx)
		case 6, 7:
			op.Kind = "storeproto"
			idx := genIndex(t, used)
			op.Entries = []c09Entry{genEntry(t, idx)}
			used = append(used, idx)
		case 8, 9, 10:
			op.Kind = "delrange"
			if len(used) > 0 && rapid.IntRange(0, 4).Draw(t, "delkind") != 0 {
				a := used[rapid.IntRange(0, len(used)-1).Draw(t, "dela")]
				op.Min = a
				op.Max = a + uint64(rapid.IntRange(0, 6).Draw(t, "delspan"))
				if rapid.IntRange(0, 3).Draw(t, "delbefore") == 0 && a > 3 {
					op.Min = a - uint64(rapid.IntRange(1, 3).Draw(t, "delpre"))
				}
			} else {
				op.Min = rapid.Uint64Range(0, 45).Draw(t, "delmin")
				op.Max = op.Min + uint64(rapid.IntRange(0, 10).Draw(t, "delspan2"))
				if rapid.IntRange(0, 5).Draw(t, "emptyrange") == 0 && op.Min > 0 {
					op.Max = op.Min - 1
				}
			}
		case 11, 12:
			op.Kind = "set"
			op.Key = []byte(rapid.SampledFrom(stableKeys).Draw(t, "skey"))
			op.Val = rapid.SliceOfN(rapid.Byte(), 0, 12).Draw(t, "sval")
		case 13, 14:
			op.Kind = "setu"
			op.Key = []byte("u-" + rapid.SampledFrom(stableKeys).Draw(t, "ukey"))
			op.U = rapid.Uint64().Draw(t, "uval")
		case 15, 16:
			if !allowReopen {
				op.Kind = "get"
				op.Index = genIndex(t, used)
				break
			}
			op.Kind = "reopen"
			if !protoMode && rapid.IntRange(0, 2).Draw(t, "convert") == 0 {
				op.Kind = "reopen_proto"
				protoMode = true
			}
		default:
			op.Kind = "get"
			op.Index = genIndex(t, used)
		}
		ops = append(ops, op)
	}
	return ops
}

// genLongOps: the log of a real node. raft appends thousands of entries between two snapshots
// and then truncates with ONE DeleteRange over everything older than its trailing window (a
// prefix), or over a conflicting suffix; the ranges of genOps never get near that size.
func genLongOps(t *rapid.T, startProto bool) []c09Op {
	var ops []c09Op
	first := genIndex(t, nil)
	next := first
	runs := rapid.IntRange(1, 2).Draw(t, "longruns")
	for r := 0; r < runs; r++ {
		cnt := rapid.IntRange(700, 2800).Draw(t, "longrun")
		chunk := rapid.SampledFrom([]int{64, 500, 4000}).Draw(t, "appendbatch")
		for done := 0; done < cnt; {
			op := c09Op{Kind: "storelogs"}
			for j := 0; j < chunk && done < cnt; j++ {
				op.Entries = append(op.Entries, c09Entry{Index: next, Term: uint64(1 + r), Type: uint8(1 + done%4), Data: []byte{byte(done), byte(done >> 8)}})
				next++
				done++
			}
			ops = append(ops, op)
		}
		ops = append(ops, c09Op{Kind: "set", Key: []byte("CurrentTerm"), Val: []byte{byte(r)}})
		last := next - 1
		ndel := rapid.IntRange(1, 2).Draw(t, "longdels")
		for d := 0; d < ndel; d++ {
			span := uint64(rapid.IntRange(1, int(last-first)+40).Draw(t, "longspan"))
			op := c09Op{Kind: "delrange"}
			switch rapid.IntRange(0, 3).Draw(t, "longdelkind") {
			case 0, 1: // truncation of a prefix (after a snapshot)
				op.Min, op.Max = first, first+span-1
				if rapid.Bool().Draw(t, "fromzero") {
					op.Min = 0
				}
			case 2: // truncation of a suffix (conflicting entries)
				op.Max = last + uint64(rapid.IntRange(0, 3).Draw(t, "beyond"))
				if span > last-first {
					span = last - first
				}
				op.Min = last - span + 1
			default: // somewhere inside
				op.Min = first + uint64(rapid.IntRange(0, int(last-first)).Draw(t, "inneroff"))
				op.Max = op.Min + span
			}
			ops = append(ops, op)
		}
		if rapid.Bool().Draw(t, "longreopen") {
			kind := "reopen"
			if !startProto && rapid.Bool().Draw(t, "longconvert") {
				kind = "reopen_proto"
				startProto = true
			}
			ops = append(ops, c09Op{Kind: kind})
		}
	}
	return ops
}

func c09Nontrivial(c c09Case) (bool, []string) {
	var labels []string
	del, reopenAfterDel, stableBetween, sawLog, conv := false, false, false, false, false
	for _, op := range c.Ops {
		switch op.Kind {
		case "delrange":
			del = true
		case "reopen", "reopen_proto":
			if del {
				reopenAfterDel = true
			}
			if op.Kind == "reopen_proto" {
				conv = true
			}
		case "set", "setu":
			if sawLog {
				stableBetween = true
			}
		case "storelogs", "storelog", "storeproto":
			sawLog = true
		}
	}
	if conv {
		labels = append(labels, "c09:json-to-protobuf-conversion")
	}
	for _, op := range c.Ops {
		if op.Kind == "delrange" && op.Max >= op.Min && op.Max-op.Min >= 1024 {
			labels = append(labels, "c09:one-deletion-over->1024-indexes")
			break
		}
	}
	if reopenAfterDel {
		labels = append(labels, "c09:reopen-after-delete")
	}
	if c.Proto {
		labels = append(labels, "c09:protobuf-mode")
	} else {
		labels = append(labels, "c09:json-mode")
	}
	return (reopenAfterDel || c.KillAt > 0 && del) && stableBetween, labels
}

func TestVerifC09(t *testing.T) {
	rec := vh.New("C09", "TestVerifC09")
	defer rec.Flush()
	base, err := os.MkdirTemp("", "c09-")
	if err != nil {
		t.Fatal(err)
	}
	defer os.RemoveAll(base)
	n := 0
	runOne := func(c c09Case) *vh.Failure {
		n++
		dir := filepath.Join(base, fmt.Sprint(n))
		defer os.RemoveAll(dir)
		return c09Run(c, dir)
	}
	if vh.Replaying() {
		for _, ff := range vh.ReplayFiles("C09", "TestVerifC09") {
			var c c09Case
			if err := json.Unmarshal(ff.Case, &c); err != nil {
				t.Fatalf("bad replay case: %v", err)
			}
			if f := runOne(c); f != nil && !rec.Known(f.Signature) {
				rec.WriteFail(f, c)
				t.Fatalf("%v", f)
			}
		}
		return
	}
	rapid.Check(t, func(rt *rapid.T) {
		c := c09Case{Proto: rapid.Bool().Draw(rt, "protomode"), Offset: rapid.SampledFrom(c09Offsets).Draw(rt, "message_offset"),
			VerifyEvery: rapid.SampledFrom([]int{1, 1, 2, 3, 5, 1000}).Draw(rt, "verifyevery")}
		if rapid.IntRange(0, 11).Draw(rt, "longlog") == 0 {
			c.Ops = genLongOps(rt, c.Proto)
		} else {
			c.Ops = genOps(rt, rapid.IntRange(3, 40).Draw(rt, "nops"), true, c.Proto)
		}
		nt, labels := c09Nontrivial(c)
		rec.Case(vh.Fingerprint(c), nt, labels, func() interface{} { return c })
		if f := runOne(c); f != nil {
			if rec.Known(f.Signature) {
				return
			}
			rec.WriteFail(f, c)
			rt.Fatalf("%v", f)
		}
	})
}

// ---- kill/reopen: the sequence runs in a child process that is SIGKILLed ----

func TestVerifC09Child(t *testing.T) {
	spec := os.Getenv("VERIF_C09_CHILD")
	if spec == "" {
		t.Skip("helper process")
	}
	b, err := os.ReadFile(spec)
	if err != nil {
		fmt.Println("childerror", err)
		os.Exit(3)
	}
	var c c09Case
	if err := json.Unmarshal(b, &c); err != nil {
		fmt.Println("childerror", err)
		os.Exit(3)
	}
	dir := os.Getenv("VERIF_C09_DIR")
	protoMode := c.Proto
	robust.MessageOffset = c.Offset
	s, err := NewLevelDBStore(dir, true, protoMode)
	if err != nil {
		fmt.Println("childerror", err)
		os.Exit(3)
	}
	w := bufio.NewWriter(os.Stdout)
	fmt.Fprintf(w, "ack 0\n")
	w.Flush()
	for k, op := range c.Ops {
		s, err = execOp(s, dir, op, &protoMode)
		if err != nil {
			fmt.Fprintf(w, "childerror op %d: %v\n", k, err)
			w.Flush()
			os.Exit(3)
		}
		fmt.Fprintf(w, "ack %d\n", k+1)
		w.Flush()
	}
	// wait to be killed (or for the parent to go away)
	time.Sleep(20 * time.Second)
	os.Exit(0)
}

func c09KillRun(c c09Case, dir string) *vh.Failure {
	os.MkdirAll(dir, 0755)
	specFile := filepath.Join(dir, "case.json")
	b, _ := json.Marshal(c)
	os.WriteFile(specFile, b, 0644)
	dbdir := filepath.Join(dir, "db")
	cmd := exec.Command(os.Args[0], "-test.run", "^TestVerifC09Child$")
	cmd.Env = append(os.Environ(), "VERIF_C09_CHILD="+specFile, "VERIF_C09_DIR="+dbdir, "VERIF_OUT=", "VERIF_REPLAY=")
	stdout, err := cmd.StdoutPipe()
	if err != nil {
		return vh.Failf("harness", "pipe: %v", err)
	}
	if err := cmd.Start(); err != nil {
		return vh.Failf("harness", "start: %v", err)
	}
	acked := -1
	sc := bufio.NewScanner(stdout)
	childErr := ""
	for sc.Scan() {
		line := sc.Text()
		if strings.HasPrefix(line, "ack ") {
			fmt.Sscanf(line, "ack %d", &acked)
			if acked >= c.KillAt {
				break
			}
		} else if strings.HasPrefix(line, "childerror") {
			childErr = line
			break
		}
	}
	if c.KillDelayUs > 0 {
		time.Sleep(time.Duration(c.KillDelayUs) * time.Microsecond)
	}
	cmd.Process.Signal(syscall.SIGKILL)
	go io.Copy(io.Discard, stdout)
	cmd.Wait()
	if childErr != "" {
		return vh.Failf("op-error-in-child", "%s", childErr)
	}
	if acked < c.KillAt {
		return vh.Failf("harness", "child ended after %d acks, wanted %d", acked, c.KillAt)
	}
	// the store must equal the model after m operations for some m >= acked
	robust.MessageOffset = c.Offset
	protoMode := c.Proto
	models := []*c09Model{}
	modes := []bool{}
	m := newC09Model()
	models = append(models, m.clone())
	modes = append(modes, protoMode)
	for _, op := range c.Ops {
		pm := protoMode
		m.apply(op, &pm)
		if op.Kind == "reopen_proto" {
			protoMode = true
		}
		models = append(models, m.clone())
		modes = append(modes, protoMode)
	}
	var probes []uint64
	for _, op := range c.Ops {
		for _, e := range op.Entries {
			probes = append(probes, e.Index)
		}
	}
	s, err := NewLevelDBStore(dbdir, false, modes[acked])
	if err != nil {
		return vh.Failf("reopen-after-kill-error", "reopen after kill at %d acknowledged operations: %v", acked, err)
	}
	defer s.Close()
	var firstFail *vh.Failure
	for k := acked; k < len(models); k++ {
		mm := models[k].clone()
		pm := modes[acked]
		mm.apply(c09Op{Kind: "reopen"}, &pm)
		f := verifyStore(s, mm, fmt.Sprintf("after kill with %d acknowledged operations, compared with the model after %d operations", acked, k), probes)
		if f == nil {
			return nil
		}
		if firstFail == nil {
			firstFail = f
		}
	}
	firstFail.Message += fmt.Sprintf(" [no model after %d..%d operations matches the store either]", acked, len(models)-1)
	firstFail.Signature = "after-kill:" + firstFail.Signature
	return firstFail
}

func TestVerifC09Kill(t *testing.T) {
	rec := vh.New("C09", "TestVerifC09Kill")
	defer rec.Flush()
	base, err := os.MkdirTemp("", "c09k-")
	if err != nil {
		t.Fatal(err)
	}
	defer os.RemoveAll(base)
	n := 0
	runOne := func(c c09Case) *vh.Failure {
		n++
		dir := filepath.Join(base, fmt.Sprint(n))
		defer os.RemoveAll(dir)
		return c09KillRun(c, dir)
	}
	if vh.Replaying() {
		for _, ff := range vh.ReplayFiles("C09", "TestVerifC09Kill") {
			var c c09Case
			if err := json.Unmarshal(ff.Case, &c); err != nil {
				t.Fatalf("bad replay case: %v", err)
			}
			if f := runOne(c); f != nil && f.Signature != "harness" && !rec.Known(f.Signature) {
				rec.WriteFail(f, c)
				t.Fatalf("%v", f)
			}
		}
		return
	}
	rapid.Check(t, func(rt *rapid.T) {
		c := c09Case{Proto: rapid.Bool().Draw(rt, "protomode"), Offset: rapid.SampledFrom(c09Offsets).Draw(rt, "message_offset")}
		if rapid.IntRange(0, 5).Draw(rt, "longlog") == 0 {
			// the kill is aimed at the range deletion over a long log
			c.Ops = genLongOps(rt, c.Proto)
			c.KillAt = len(c.Ops)
			for k, op := range c.Ops {
				if op.Kind == "delrange" {
					c.KillAt = k
					break
				}
			}
			if c.KillAt == 0 {
				c.KillAt = 1
			}
			c.KillDelayUs = rapid.IntRange(0, 4000).Draw(rt, "killdelay")
		} else {
			c.Ops = genOps(rt, rapid.IntRange(3, 30).Draw(rt, "nops"), true, c.Proto)
			c.KillAt = rapid.IntRange(1, len(c.Ops)).Draw(rt, "killat")
			c.KillDelayUs = rapid.SampledFrom([]int{0, 0, 50, 300, 1000}).Draw(rt, "killdelay")
		}
		nt, labels := c09Nontrivial(c)
		rec.Case(vh.Fingerprint(c), nt, append(labels, "c09:kill"), func() interface{} { return c })
		if f := runOne(c); f != nil {
			if f.Signature == "harness" {
				rt.Skip(f.Message)
			}
			if rec.Known(f.Signature) {
				return
			}
			rec.WriteFail(f, c)
			rt.Fatalf("%v", f)
		}
	})
}
