package main

// C15: whatever a client posts, every message delivered to any client is one
// well-formed IRC line (<= 510 bytes, no LF/CR/NUL, [prefix] command [params]).

import (
	"encoding/json"
	"fmt"
	"os"
	"strings"
	"testing"
	"unicode/utf8"

	"github.com/robustirc/robustirc/internal/robust"
	"pgregory.net/rapid"
	"verif.local/verif/vh"
)

type c15Post struct {
	// Who posts: 0 = member of #c (registered), 1 = registered outsider, 2 = unregistered session
	Who  int    `json:"who"`
	Kind string `json:"kind"` // json | raw | delete
	// Line is the Data / quit message for kind json / delete
	Line string `json:"line,omitempty"`
	// Raw is the request body for kind raw
	Raw []byte `json:"raw,omitempty"`
}

type c15Case struct {
	Posts []c15Post `json:"posts"`
}

// lineProblem re-states the property for one delivered line.
func lineProblem(data string) string { return vh.LineProblem(data) }

func problemClass(p string) string {
	f := strings.Fields(p)
	if f[0] == "is" {
		return "too-long"
	}
	return f[0] + "-" + f[1]
}

var c15Counter int

func c15Execute(c *c15Case, base string, rec *vh.Recorder) (fail *vh.Failure, labels []string, nontrivial bool) {
	c15Counter++
	dir := newNodeDir(base, c15Counter)
	defer os.RemoveAll(dir)
	n, err := startNode(dir, true)
	if err != nil {
		return vh.Failf("harness", "start: %v", err), nil, false
	}
	defer func() { n.stop() }()
	if code, body := n.setConfig(zeroCooloffConfig); code != 200 {
		return vh.Failf("harness", "config: %d %s", code, body), nil, false
	}
	lab := map[string]bool{}
	cmid := uint64(10)
	mk := func(nick string, register, join bool) (sessionCred, *vh.Failure) {
		cred, code := n.createSession()
		if code != 200 {
			return cred, vh.Failf("harness", "create: %d", code)
		}
		if register {
			for _, l := range []string{"NICK " + nick, "USER " + nick + " 0 * :Real Name"} {
				cmid++
				n.post(cred, l, cmid)
			}
		}
		if join {
			cmid++
			n.post(cred, "JOIN #c", cmid)
		}
		return cred, nil
	}
	observer, f := mk("observer", true, true)
	if f != nil {
		return f, nil, false
	}
	target, f := mk("target", true, false) // receives private messages
	if f != nil {
		return f, nil, false
	}
	var posters [3]sessionCred
	fresh := func(who int) *vh.Failure {
		var f *vh.Failure
		switch who {
		case 0:
			posters[0], f = mk(fmt.Sprintf("member%d", cmid), true, true)
		case 1:
			posters[1], f = mk(fmt.Sprintf("outsider%d", cmid), true, false)
		default:
			posters[2], f = mk("", false, false)
		}
		return f
	}
	for who := 0; who < 3; who++ {
		if f := fresh(who); f != nil {
			return f, nil, false
		}
	}
	hostile := false
	for pi, p := range c.Posts {
		who := p.Who % 3
		s := posters[who]
		var code int
		// "$ME" stands for the poster's current nickname (commands that act on the own nickname)
		if strings.Contains(p.Line, "$ME") {
			me := "nobody"
			if sess, err := ircServer.GetSession(robust.Id{Id: s.Num}); err == nil && sess.Nick != "" {
				me = sess.Nick
			}
			p.Line = strings.ReplaceAll(p.Line, "$ME", me)
		}
		switch p.Kind {
		case "json":
			cmid++
			body, _ := json.Marshal(map[string]interface{}{"Data": p.Line, "ClientMessageId": cmid})
			code = n.postRaw(s, body).Code
		case "raw":
			code = n.postRaw(s, p.Raw).Code
		case "delete":
			body, _ := json.Marshal(map[string]interface{}{"Quitmessage": p.Line})
			code = n.public("DELETE", s.Id, body, map[string]string{"X-Session-Auth": s.Auth}).Code
			if f := fresh(who); f != nil {
				return f, nil, false
			}
		}
		if code != 200 && (code < 400 || code > 499) && !(p.Kind == "delete" && code == 500) {
			return vh.Failf("handler-status", "post #%d (%s) was answered with HTTP %d", pi, p.Kind, code), keys2(lab), true
		}
		if strings.ContainsAny(p.Line, "\r\n\x00") || len(p.Line) > 510 {
			hostile = true
		}
		// a session that quit or was closed by its own line needs a replacement
		if _, err := ircServer.GetSession(robust.Id{Id: s.Num}); err != nil {
			if f := fresh(who); f != nil {
				return f, nil, false
			}
		}
	}
	// observation point 1: the output stream
	last := node.LastIndex()
	delivered := 0
	toOthers := false
	for idx := uint64(1); idx <= last; idx++ {
		msgs, ok := outputStream.Get(robust.Id{Id: robust.IdFromRaftIndex(idx)})
		if !ok {
			continue
		}
		for _, m := range msgs {
			delivered++
			if m.InterestingFor[observer.Num] || m.InterestingFor[target.Num] {
				toOthers = true
			}
			if p := lineProblem(m.Data); p != "" {
				sig := "malformed-line-in-output-stream:" + problemClass(p)
				if rec.Known(sig) {
					continue
				}
				return vh.Failf(sig, "output message %d.%d %s: %q", m.Id.Id, m.Id.Reply, p, m.Data), keys2(lab), true
			}
			// ... and as its recipient gets it: GET messages encodes the line as a JSON string, and the
			// encoder replaces every byte that is not part of a valid UTF-8 sequence by U+FFFD (three
			// bytes). The streams read below are the observer's and the target's; replies that go to
			// the poster alone (MODE on the own nickname, numerics) are only seen here (seed C15n).
			if enc, err := json.Marshal(m.Data); err == nil {
				var served string
				if json.Unmarshal(enc, &served) == nil && served != m.Data {
					lab["c15:line-changed-by-transport"] = true
					if p := lineProblem(served); p != "" {
						sig := "malformed-line-after-transport:" + problemClass(p)
						if !rec.Known(sig) {
							return vh.Failf(sig, "output message %d.%d, as JSON transport serves it, %s: stored %q", m.Id.Id, m.Id.Reply, p, m.Data), keys2(lab), true
						}
					}
				}
			}
		}
	}
	// observation point 2: what GET .../messages serves (after JSON transport)
	for _, s := range []sessionCred{observer, target} {
		msgs := n.readAll(s, outputStream.LastSeen().Id)
		for _, m := range msgs {
			if m.Data == "<unparsable JSON>" {
				return vh.Failf("unparsable-json-served", "GET messages served a line that is not JSON: %q", m.Raw), keys2(lab), true
			}
			if !utf8.ValidString(m.Data) {
				continue
			}
			if p := lineProblem(m.Data); p != "" {
				sig := "malformed-line-served:" + problemClass(p)
				if rec.Known(sig) {
					continue
				}
				return vh.Failf(sig, "message %d.%d served to session %s %s: %q", m.Id.Id, m.Id.Reply, s.Id, p, m.Data), keys2(lab), true
			}
		}
	}
	rec.Count("lines_checked_in_output_stream", int64(delivered))
	return nil, keys2(lab), hostile && toOthers
}

var c15Targets = []string{"MODE #c +", "MODE $ME +", "MODE $ME -", "MODE #c ", "PRIVMSG #c :", "NOTICE #c :", "PRIVMSG target :", "TOPIC #c :", "PART #c :", "QUIT :", "AWAY :", "KICK #c observer :", "NICK ", "USER x 0 * :", "JOIN #", "PRIVMSG #c,target :", "KNOCK #c :", "INVITE target #c", "MODE #c +k "}

func c15GenLine(t *rapid.T) string {
	prefix := rapid.SampledFrom(c15Targets).Draw(t, "lineprefix")
	var payload string
	switch rapid.IntRange(0, 7).Draw(t, "payload") {
	case 0:
		payload = rapid.SampledFrom([]string{"a\rb", "a\nb", "a\x00b", "x\r\n:evil!e@e PRIVMSG #c :forged", "x\n:evil!e@e PRIVMSG #c :forged", "\r", "\n", "\x00", "tail\r", "tail\n", "bye\r\nQUIT :x"}).Draw(t, "ctl")
	case 1:
		// long ASCII
		payload = strings.Repeat("x", rapid.IntRange(380, 700).Draw(t, "asciilen"))
	case 2, 3:
		// multi-byte characters straddling the 510 byte cut
		unit := rapid.SampledFrom([]string{"ü", "€", "😀", "a€", "üx"}).Draw(t, "unit")
		pad := strings.Repeat("p", rapid.IntRange(0, 7).Draw(t, "pad"))
		payload = pad + strings.Repeat(unit, rapid.IntRange(100, 260).Draw(t, "mblen"))
	case 4:
		payload = rapid.StringN(0, 60, 240).Draw(t, "anystring")
	case 5:
		payload = rapid.StringN(300, 600, 2400).Draw(t, "longstring")
	case 6:
		payload = rapid.SampledFrom([]string{"", " ", ":", " :", "hello there", "\x01ACTION waves\x01", "\t"}).Draw(t, "plain")
	default:
		payload = strings.Repeat(rapid.SampledFrom([]string{"ab ", ": ", "\r", "é "}).Draw(t, "rep"), rapid.IntRange(1, 300).Draw(t, "repn"))
	}
	// characters whose low byte is LF, CR, NUL or a blank (U+4E0A, U+4E0D, U+4E00, U+010A, U+010D,
	// U+0100, U+0120): harmless as text, a terminator wherever a character is narrowed to a byte
	if rapid.IntRange(0, 5).Draw(t, "lowbyte") == 0 {
		n := rapid.IntRange(1, 4).Draw(t, "lowbyten")
		mixed := ""
		for k := 0; k < n; k++ {
			mixed += rapid.SampledFrom([]string{"上", "不", "一", "Ċ", "č", "Ā", "Ġ", "i", "o", "b"}).Draw(t, "lowbytechar")
		}
		payload = mixed + rapid.SampledFrom([]string{"", ":evil!e@e PRIVMSG #c :forged", " x"}).Draw(t, "lowbytetail")
	}
	line := prefix + payload
	// a user name with multi-byte characters at every offset: it becomes part of the prefix of every
	// later line of the session
	if rapid.IntRange(0, 9).Draw(t, "mbuser") == 0 {
		line = "USER " + strings.Repeat("u", rapid.IntRange(0, 11).Draw(t, "userpad")) + strings.Repeat(rapid.SampledFrom([]string{"ü", "€", "😀"}).Draw(t, "userunit"), rapid.IntRange(1, 6).Draw(t, "usern")) + " 0 * :Real Name"
	}
	// the terminator far behind the start: more than 512 bytes of parameters or blanks which the
	// command handler drops, then a short text with a terminator and a forged line
	if rapid.IntRange(0, 9).Draw(t, "farterminator") == 0 {
		filler := strings.Repeat(rapid.SampledFrom([]string{"x ", " ", "ab cd ", "é "}).Draw(t, "filler"), rapid.IntRange(200, 600).Draw(t, "fillern"))
		term := rapid.SampledFrom([]string{"\r\n", "\n", "\r", "\x00"}).Draw(t, "farterm")
		line = rapid.SampledFrom([]string{"PRIVMSG #c ", "NOTICE #c ", "PRIVMSG target ", "TOPIC #c ", "PART #c ", "KICK #c observer "}).Draw(t, "farcmd") + filler + ":hi" + term + ":admin!root@h PRIVMSG #c :forged"
	}
	// a terminator as the very first byte: the parser trims it, so the command behind it is still
	// executed, with whatever the rest of the text contains
	if rapid.IntRange(0, 7).Draw(t, "leadingterminator") == 0 {
		line = rapid.SampledFrom([]string{"\r\n", "\n", "\r", "\x00", "\n\r\n", "\r\x00"}).Draw(t, "leading") + line
	}
	return line
}

func TestVerifC15(t *testing.T) {
	quiet()
	rec := vh.New("C15", "TestVerifC15")
	defer rec.Flush()
	base, err := os.MkdirTemp("", "c15-")
	if err != nil {
		t.Fatal(err)
	}
	defer os.RemoveAll(base)
	if vh.Replaying() {
		for _, ff := range vh.ReplayFiles("C15", "TestVerifC15") {
			var c c15Case
			if err := json.Unmarshal(ff.Case, &c); err != nil {
				t.Fatalf("bad replay case: %v", err)
			}
			if f, _, _ := c15Execute(&c, base, rec); f != nil && f.Signature != "harness" && !rec.Known(f.Signature) {
				rec.WriteFail(f, &c)
				t.Fatalf("%v", f)
			}
		}
		return
	}
	rapid.Check(t, func(rt *rapid.T) {
		c := &c15Case{}
		np := rapid.IntRange(1, 20).Draw(rt, "nposts")
		for k := 0; k < np; k++ {
			p := c15Post{Who: rapid.IntRange(0, 2).Draw(rt, "who")}
			switch rapid.IntRange(0, 9).Draw(rt, "kind") {
			case 0:
				p.Kind = "raw"
				switch rapid.IntRange(0, 3).Draw(rt, "rawkind") {
				case 0:
					p.Raw = rapid.SliceOfN(rapid.Byte(), 0, 200).Draw(rt, "rawbytes")
				case 1:
					p.Raw = []byte(`{"Data": "PRIVMSG #c :` + strings.Repeat("y", 2100) + `", "ClientMessageId": 4}`)
				case 2:
					p.Raw = []byte("{\"Data\": \"PRIVMSG #c :\xff\xfe invalid utf8\", \"ClientMessageId\": 77}")
				default:
					p.Raw = []byte(`{"Data": 5}`)
				}
			case 1, 2:
				p.Kind = "delete"
				p.Line = c15GenLine(rt)
				if k := strings.Index(p.Line, ":"); k >= 0 {
					p.Line = p.Line[k+1:]
				}
			default:
				p.Kind = "json"
				p.Line = c15GenLine(rt)
			}
			c.Posts = append(c.Posts, p)
		}
		f, labels, nt := c15Execute(c, base, rec)
		rec.Count("posts", int64(len(c.Posts)))
		rec.Case(vh.Fingerprint(c), nt, labels, func() interface{} { return c })
		if f != nil {
			if f.Signature == "harness" {
				rt.Skip(f.Message)
			}
			if rec.Known(f.Signature) {
				return
			}
			rec.WriteFail(f, c)
			rt.Fatalf("%v", f)
		}
	})
}
