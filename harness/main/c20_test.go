package main

// C20: concurrent API use while entries are applied is free of data races.
// This file is built with -race; groups of concurrently running operation
// streams are generated from the seed, the race detector is the oracle (its
// reports are collected by the driver from the GORACE log files).

import (
	"context"
	"encoding/json"
	"fmt"
	"math/rand"
	"os"
	"path/filepath"
	"runtime"
	"strings"
	"sync"
	"sync/atomic"
	"testing"
	"time"

	"github.com/hashicorp/raft"
	"github.com/robustirc/robustirc/internal/robust"
	"verif.local/verif/vh"
)

type c20Stream struct {
	Kind string `json:"stream"`
	Sess int    `json:"session"`
	N    int    `json:"operations"`
}

type c20Group struct {
	Seed       int64       `json:"seed"`
	Streams    []c20Stream `json:"streams"`
	GoMaxProcs int         `json:"gomaxprocs"`
}

// Kinds that may run beside an "oper-post" stream. GLINE takes ConfigMu.Lock while ProcessMessage
// holds sessionsMu; ThrottleUntil (every POST with a non-zero cool-off), ExpireSessions and the
// status page take the two locks in the other order. That inversion is a possible deadlock
// (liveness, DESIGN.md 0.5), not a data race, so the streams that can run into it stay out of
// groups in which an operator GLINEs.
var c20OperSafeKinds = []string{"config-read", "direct-config", "snapshot", "getmessages", "direct-output", "direct-store", "config-read", "direct-config"}

var c20Kinds = []string{"origin-request", "config-write", "post", "post-same-session", "getmessages", "create-delete", "status", "config-read", "expire", "snapshot", "direct-ircserver", "direct-output", "direct-store", "nick-while-polling", "getmessages-reconnect", "restore"}

func c20Run(g c20Group, base string, k int) (overlap bool, err error) {
	dir := newNodeDir(base, k)
	defer os.RemoveAll(dir)
	n, err := startNode(dir, true)
	if err != nil {
		return false, err
	}
	defer n.stop()
	// a non-zero cool-off so that request throttling does its bookkeeping
	cfg := strings.Replace(zeroCooloffConfig, "PostMessageCooloff = \"0s\"", "PostMessageCooloff = \"3ms\"", 1)
	if code, body := n.setConfig(cfg); code != 200 {
		return false, fmt.Errorf("config: %d %s", code, body)
	}
	old := runtime.GOMAXPROCS(g.GoMaxProcs)
	defer runtime.GOMAXPROCS(old)
	var creds []sessionCred
	cmid := uint64(1000)
	var cmidMu sync.Mutex
	nextCMID := func() uint64 {
		cmidMu.Lock()
		defer cmidMu.Unlock()
		cmid++
		return cmid
	}
	for s := 0; s < 3; s++ {
		cred, code := n.createSession()
		if code != 200 {
			return false, fmt.Errorf("create: %d", code)
		}
		for _, l := range []string{fmt.Sprintf("NICK r%d", s), "USER u 0 * :r", "JOIN #c"} {
			n.post(cred, l, nextCMID())
		}
		creds = append(creds, cred)
	}
	// an initial snapshot so that a restore stream has something to restore
	hasRestore := false
	for _, st := range g.Streams {
		if st.Kind == "restore" {
			hasRestore = true
		}
		if st.Kind == "oper-post" {
			n.post(creds[0], "OPER op pw", nextCMID())
		}
	}
	if hasRestore {
		n.snapshot()
	}
	// the streams work on the objects that are current when the group starts: the package
	// variables themselves belong to the FSM goroutine (Restore re-assigns them)
	srv, out, store := ircServer, outputStream, ircStore
	var wg sync.WaitGroup
	var applying, touching int32
	var overlapped int32
	start := make(chan struct{})
	for si, st := range g.Streams {
		wg.Add(1)
		st := st
		r := rand.New(rand.NewSource(g.Seed + int64(si)*7919))
		go func() {
			defer wg.Done()
			<-start
			cred := creds[st.Sess%len(creds)]
			for op := 0; op < st.N; op++ {
				if r.Intn(3) == 0 {
					runtime.Gosched()
				}
				switch st.Kind {
				case "post", "post-same-session":
					c := cred
					if st.Kind == "post-same-session" {
						c = creds[0]
					}
					atomic.AddInt32(&applying, 1)
					n.post(c, fmt.Sprintf("PRIVMSG #c :m%d", op), nextCMID())
					atomic.AddInt32(&applying, -1)
				case "getmessages":
					atomic.AddInt32(&touching, 1)
					if atomic.LoadInt32(&applying) > 0 {
						atomic.StoreInt32(&overlapped, 1)
					}
					n.readStream(cred, cred.Auth, "0.0", func(m []streamed) bool { return len(m) > 3 }, 15*time.Millisecond)
					atomic.AddInt32(&touching, -1)
				case "getmessages-reconnect":
					// the client reconnects while its previous long-poll is still open: the new request supersedes it
					var inner sync.WaitGroup
					inner.Add(2)
					go func() {
						defer inner.Done()
						n.readStream(cred, cred.Auth, "0.0", nil, 12*time.Millisecond)
					}()
					time.Sleep(time.Duration(r.Intn(3)) * time.Millisecond)
					go func() {
						defer inner.Done()
						n.readStream(cred, cred.Auth, "0.0", nil, 4*time.Millisecond)
					}()
					inner.Wait()
				case "nick-while-polling":
					// a session without nickname long-polls (the status page then falls back to the
					// session's current nickname) while it registers
					c, code := n.createSession()
					if code == 200 {
						var inner sync.WaitGroup
						inner.Add(2)
						go func() {
							defer inner.Done()
							n.readStream(c, c.Auth, "0.0", nil, 25*time.Millisecond)
						}()
						go func() {
							defer inner.Done()
							for k := 0; k < 4; k++ {
								n.private("GET", "/status/getmessage", nil, "robustirc", nodePassword, nil)
							}
						}()
						time.Sleep(time.Millisecond)
						n.post(c, fmt.Sprintf("NICK p%d", nextCMID()), nextCMID())
						n.post(c, fmt.Sprintf("NICK q%d", nextCMID()), nextCMID())
						inner.Wait()
						n.deleteSession(c, "bye")
					}
				case "create-delete":
					c, code := n.createSession()
					if code == 200 {
						n.post(c, fmt.Sprintf("NICK t%d", nextCMID()), nextCMID())
						n.deleteSession(c, "bye")
					}
				case "status":
					path := []string{"/status", "/status/sessions", "/status/getmessage", "/status/state", "/status/irclog", "/", "/leader"}[r.Intn(7)]
					hdr := map[string]string{}
					if r.Intn(3) == 0 {
						hdr["Accept"] = "application/json"
					}
					n.private("GET", path, nil, "robustirc", nodePassword, hdr)
					if atomic.LoadInt32(&applying) > 0 {
						atomic.StoreInt32(&overlapped, 1)
					}
				case "origin-request":
					// a browser client: the request carries an Origin header, which is looked up in the
					// configuration before the request is dispatched
					b, _ := json.Marshal(map[string]interface{}{"Data": fmt.Sprintf("PRIVMSG #c :o%d", op), "ClientMessageId": nextCMID()})
					atomic.AddInt32(&applying, 1)
					n.public("POST", cred.Id+"/message", b, map[string]string{"X-Session-Auth": cred.Auth, "Origin": []string{"https://web.example", "https://other.example"}[r.Intn(2)]})
					atomic.AddInt32(&applying, -1)
				case "config-write":
					// the administrator posts a new configuration (a Config entry replaces the
					// configuration of the running server)
					c2 := cfg
					if r.Intn(2) == 0 {
						c2 += "[WhitelistedOrigins]\n\"https://web.example\" = true\n"
					}
					atomic.AddInt32(&applying, 1)
					n.setConfig(c2)
					atomic.AddInt32(&applying, -1)
				case "config-read":
					n.private("GET", "/config", nil, "robustirc", nodePassword, nil)
					if atomic.LoadInt32(&applying) > 0 {
						atomic.StoreInt32(&overlapped, 1)
					}
				case "direct-config":
					switch r.Intn(4) {
					case 0:
						srv.Banned(fmt.Sprintf("10.9.%d.%d", st.Sess, r.Intn(12)))
					case 1:
						srv.TrustedBridge("x")
					case 2:
						srv.SessionLimit()
						srv.ChannelLimit()
					default:
						srv.OriginWhitelisted("https://web.example")
					}
					if atomic.LoadInt32(&applying) > 0 {
						atomic.StoreInt32(&overlapped, 1)
					}
				case "oper-post":
					// the only poster of its group: an IRC operator whose lines write configuration and
					// session state (GLINE bans the address of a fresh session, KILL, MODE, TOPIC, ...)
					oper := creds[0]
					atomic.AddInt32(&applying, 1)
					switch r.Intn(7) {
					case 0, 1, 2:
						v, code := n.createSession()
						if code == 200 {
							v.Addr = fmt.Sprintf("10.9.%d.%d:1", st.Sess, op)
							nick := fmt.Sprintf("v%d", nextCMID())
							n.post(v, "NICK "+nick, nextCMID())
							n.post(v, "USER v 0 * :v", nextCMID())
							n.post(oper, "GLINE "+nick+" :spam", nextCMID())
						}
					case 3:
						n.post(oper, "MODE #c +o r1", nextCMID())
						n.post(oper, "MODE #c -o r1", nextCMID())
					case 4:
						n.post(oper, fmt.Sprintf("TOPIC #c :t%d", op), nextCMID())
					case 5:
						n.post(oper, "AWAY :busy", nextCMID())
						n.post(oper, "AWAY", nextCMID())
					default:
						n.post(oper, fmt.Sprintf("JOIN #d%d", op%3), nextCMID())
						n.post(oper, fmt.Sprintf("PART #d%d", op%3), nextCMID())
					}
					atomic.AddInt32(&applying, -1)
				case "expire":
					srv.ExpireSessions()
				case "snapshot":
					n.snapshot()
				case "restore":
					snaps, err := n.fss.List()
					if err == nil && len(snaps) > 0 {
						if meta, rc, err := n.fss.Open(snaps[0].ID); err == nil {
							node.Restore(meta, rc, 5*time.Second)
							rc.Close()
						}
					}
				case "direct-ircserver":
					id := robust.Id{Id: cred.Num}
					i := srv
					switch r.Intn(9) {
					case 0:
						i.GetSession(id)
					case 1:
						i.GetNick(id)
					case 2:
						i.NumSessions()
						i.NumChannels()
					case 3:
						i.LastPostMessage(id)
					case 4:
						i.ThrottleUntil(id)
					case 5:
						i.GetSessions()
					case 6:
						i.SessionLimit()
						i.ChannelLimit()
					case 7:
						i.TrustedBridge("x")
						i.Banned("10.0.0.1")
					default:
						i.OriginWhitelisted("https://web.example")
					}
					if atomic.LoadInt32(&applying) > 0 {
						atomic.StoreInt32(&overlapped, 1)
					}
				case "direct-output":
					o := out
					switch r.Intn(4) {
					case 0:
						o.Get(robust.Id{Id: uint64(1 + r.Intn(20))})
					case 1:
						o.LastSeen()
					case 2:
						ctx, cancel := context.WithTimeout(context.Background(), 2*time.Millisecond)
						go func() { <-ctx.Done(); o.InterruptGetNext() }()
						o.GetNext(ctx, robust.Id{Id: uint64(r.Intn(20))})
						cancel()
					default:
						o.InterruptGetNext()
					}
					if atomic.LoadInt32(&applying) > 0 {
						atomic.StoreInt32(&overlapped, 1)
					}
				case "direct-store":
					st := store
					switch r.Intn(3) {
					case 0:
						st.FirstIndex()
					case 1:
						st.LastIndex()
					default:
						var l raft.Log
						st.GetLog(uint64(1+r.Intn(20)), &l)
					}
				}
			}
		}()
	}
	close(start)
	done := make(chan struct{})
	go func() { wg.Wait(); close(done) }()
	select {
	case <-done:
	case <-time.After(60 * time.Second):
		return false, fmt.Errorf("group did not finish within 60s (hung): %+v", g)
	}
	return atomic.LoadInt32(&overlapped) == 1, nil
}

func TestVerifC20(t *testing.T) {
	quiet()
	rec := vh.New("C20", "TestVerifC20")
	defer rec.Flush()
	base, err := os.MkdirTemp("", "c20-")
	if err != nil {
		t.Fatal(err)
	}
	defer os.RemoveAll(base)
	seed := int64(vh.EnvInt("VERIF_SHARD_SEED_LOW", 1))
	if s := os.Getenv("VERIF_SHARD_SEED"); s != "" {
		var x uint64
		fmt.Sscan(s, &x)
		seed = int64(x & 0x7fffffff)
	}
	ngroups := vh.EnvInt("VERIF_N", 4)
	glog, _ := os.Create(filepath.Join(os.Getenv("VERIF_OUT"), "groups.jsonl"))
	if glog != nil {
		defer glog.Close()
	}
	r := rand.New(rand.NewSource(seed))
	for k := 0; k < ngroups; k++ {
		g := c20Group{Seed: seed*1000 + int64(k), GoMaxProcs: []int{2, 4, 16}[r.Intn(3)]}
		ns := 3 + r.Intn(5)
		restore := r.Intn(6) == 0
		operGroup := !restore && r.Intn(5) == 0
		if operGroup {
			g.Streams = append(g.Streams, c20Stream{Kind: "oper-post", N: 6 + r.Intn(10)})
			for s := 0; s < ns; s++ {
				g.Streams = append(g.Streams, c20Stream{Kind: c20OperSafeKinds[r.Intn(len(c20OperSafeKinds))], Sess: r.Intn(3), N: 6 + r.Intn(20)})
			}
		}
		for s := 0; s < ns && !operGroup; s++ {
			kind := c20Kinds[r.Intn(len(c20Kinds)-1)] // restore is chosen separately
			if restore && (kind == "getmessages" || kind == "direct-output" || kind == "direct-store" || kind == "status" || kind == "snapshot" || kind == "nick-while-polling" || kind == "getmessages-reconnect") {
				// a running restore closes the output stream and the log copy under readers and under
				// a snapshot that is being persisted (crashes, not data races: see DESIGN.md section 9)
				kind = "post"
			}
			g.Streams = append(g.Streams, c20Stream{Kind: kind, Sess: r.Intn(3), N: 3 + r.Intn(12)})
		}
		// the two posters on one session are the classic
		if !operGroup && r.Intn(2) == 0 {
			g.Streams = append(g.Streams, c20Stream{Kind: "post-same-session", N: 8}, c20Stream{Kind: "post-same-session", N: 8})
		}
		if restore {
			g.Streams = append(g.Streams, c20Stream{Kind: "restore", N: 1 + r.Intn(2)})
		}
		if glog != nil {
			b, _ := json.Marshal(g)
			glog.Write(append(b, '\n'))
		}
		overlap, err := c20Run(g, base, k)
		var labels []string
		for _, st := range g.Streams {
			labels = append(labels, "c20:stream-"+st.Kind)
		}
		rec.Case(vh.Fingerprint(g), overlap, uniqStrings(labels), func() interface{} { return g })
		if err != nil {
			t.Logf("group %d inconclusive: %v", k, err)
			rec.Label("c20:group-inconclusive")
		}
	}
}

func uniqStrings(in []string) []string {
	seen := map[string]bool{}
	var out []string
	for _, s := range in {
		if !seen[s] {
			seen[s] = true
			out = append(out, s)
		}
	}
	return out
}
