package main

// C07: a message of death is marked durably, skipped on every replay, and the
// node keeps applying. The crashing entry is injected with the test-only PANIC
// command; the state machine runs in child processes (the code path ends in
// glog.Fatalf), the durable raft log is inspected between the runs.

import (
	"encoding/json"
	"fmt"
	"os"
	"os/exec"
	"path/filepath"
	"strings"
	"testing"
	"time"

	"github.com/hashicorp/raft"
	"github.com/robustirc/rafthttp"
	"github.com/robustirc/robustirc/internal/raftstore"
	"github.com/robustirc/robustirc/internal/robust"
	"gopkg.in/sorcix/irc.v2"
	"pgregory.net/rapid"
	"verif.local/verif/ircgen"
	"verif.local/verif/vh"
)

type c07Case struct {
	Entries []ircgen.Entry `json:"entries"`
	// SnapshotAfter: positions (number of applied entries) after which the restarted node snapshots and restores
	SnapshotAfter []int `json:"snapshot_and_restore_after_n_entries,omitempty"`
	// JSON: the node runs with -pre1.0_protobuf=false (the recover handler has a branch of its own
	// for rewriting the crashing entry in the legacy encoding)
	JSON bool `json:"json_encoding,omitempty"`
}

type c07ChildSpec struct {
	Dir           string `json:"dir"`
	SnapshotAfter []int  `json:"snapshot_after"`
	DumpFile      string `json:"dump_file"`
	HorizonNano   int64  `json:"horizon_nano"`
	JSON          bool   `json:"json"`
}

type c07Dump struct {
	State   map[string]string `json:"state"`
	Outputs map[string]string `json:"outputs"`
	Applied int               `json:"applied"`
}

// TestVerifC07Child is the child process: it replays the durable raft log through FSM.Apply.
func TestVerifC07Child(t *testing.T) {
	specFile := os.Getenv("VERIF_C07_CHILD")
	if specFile == "" {
		t.Skip("helper process")
	}
	quiet()
	b, err := os.ReadFile(specFile)
	if err != nil {
		fmt.Println("childerror", err)
		os.Exit(3)
	}
	var spec c07ChildSpec
	if err := json.Unmarshal(b, &spec); err != nil {
		fmt.Println("childerror", err)
		os.Exit(3)
	}
	env := newFsmEnv(spec.Dir, 0, !spec.JSON)
	first, _ := env.logstore.FirstIndex()
	last, _ := env.logstore.LastIndex()
	applied := 0
	snapAt := map[int]bool{}
	for _, p := range spec.SnapshotAfter {
		snapAt[p] = true
	}
	var appliedLogs []*raft.Log
	for idx := first; idx <= last && first > 0; idx++ {
		var l raft.Log
		if err := env.logstore.GetLog(idx, &l); err != nil {
			continue // index gap
		}
		env.fsm.Apply(&l)
		cp := l
		appliedLogs = append(appliedLogs, &cp)
		applied++
		if snapAt[applied] {
			*canaryCompactionStart = spec.HorizonNano + int64(10*time.Minute+10*time.Second)
			snap, err := env.fsm.Snapshot()
			if err != nil {
				fmt.Println("childerror snapshot:", err)
				os.Exit(3)
			}
			sink, err := env.fss.Create(1, l.Index, 1, raft.Configuration{}, 0, &rafthttp.HTTPTransport{})
			if err != nil {
				fmt.Println("childerror create:", err)
				os.Exit(3)
			}
			if err := snap.Persist(sink); err != nil {
				fmt.Println("childerror persist:", err)
				os.Exit(3)
			}
			sink.Close()
			snaps, _ := env.fss.List()
			_, rc, err := env.fss.Open(snaps[0].ID)
			if err != nil {
				fmt.Println("childerror open:", err)
				os.Exit(3)
			}
			if err := env.fsm.Restore(rc); err != nil {
				fmt.Println("childerror restore:", err)
				os.Exit(3)
			}
			time.Sleep(2 * time.Millisecond)
		}
	}
	d := c07Dump{State: vh.DumpServer(ircServer), Outputs: map[string]string{}, Applied: applied}
	for _, l := range appliedLogs {
		if s, ok := outputOf(outputStream, l.Index); ok {
			d.Outputs[fmt.Sprint(l.Index)] = s
		}
	}
	out, _ := json.Marshal(d)
	if err := os.WriteFile(spec.DumpFile, out, 0644); err != nil {
		fmt.Println("childerror", err)
		os.Exit(3)
	}
	// leave the stores as a killed process would; the parent reopens them
	os.Exit(0)
}

func isPanicLine(data string) bool {
	m := irc.ParseMessage(data)
	return m != nil && strings.ToUpper(m.Command) == "PANIC"
}

// reachesHandler predicts, on the reference, whether a PANIC line gets past the gates.
func reachesHandler(ref *reference, e ircgen.Entry) bool {
	if e.Kind != "irc" || !isPanicLine(e.Data) {
		return false
	}
	for _, s := range worldOf(ref.srv).Sessions {
		if s.Id == e.Session && s.Reply == 0 {
			if e.Addr != "" && e.Addr != s.RemoteAddr && ref.srv.Banned(e.Addr) != "" {
				return false
			}
			return s.LoggedIn && !s.Server
		}
	}
	return false
}

var c07Counter int

func c07Execute(c *c07Case, rt *rapid.T, base string) (fail *vh.Failure, labels []string, nontrivial bool) {
	c07Counter++
	dir := filepath.Join(base, fmt.Sprintf("c07-%d", c07Counter))
	os.MkdirAll(dir, 0755)
	defer os.RemoveAll(dir)
	tmp := filepath.Join(dir, "ref")
	os.MkdirAll(tmp, 0755)
	ref := newReference(tmp, "")
	defer ref.close()
	lab := map[string]bool{}
	var deaths []uint64 // ids of entries that must be marked, in order
	followed := false
	apply := func(e ircgen.Entry) bool {
		ee := e
		if reachesHandler(ref, e) {
			ee.Kind = "mod" // the reference skips it, but records the client message id
			deaths = append(deaths, e.Id)
		} else if len(deaths) > 0 && e.Kind == "irc" {
			for _, d := range deaths {
				for _, pe := range c.Entries {
					if pe.Id == d && pe.Session == e.Session {
						followed = true
					}
				}
			}
		}
		return ref.apply(ee) == ""
	}
	if rt != nil {
		opt := ircgen.Options{Commands: commandNames(), NoBigJumps: true}
		g := ircgen.New(opt)
		n := rapid.IntRange(6, 40).Draw(rt, "history_len")
		npanic := rapid.IntRange(1, 2).Draw(rt, "npanics")
		pos := map[int]bool{}
		for k := 0; k < npanic; k++ {
			pos[rapid.IntRange(1, n-1).Draw(rt, "panicpos")] = true
		}
		for k := 0; k < n; k++ {
			w := worldOf(ref.srv)
			e := g.Next(rt, w)
			if pos[k] && len(w.Sessions) > 0 {
				// the crashing line, from a generated role
				s := w.Sessions[rapid.IntRange(0, len(w.Sessions)-1).Draw(rt, "panicsession")]
				e = ircgen.Entry{Kind: "irc", Id: e.Id, Nano: e.Nano, Session: s.Id, CMID: e.Id*3 + 1, Addr: s.RemoteAddr,
					Data: rapid.SampledFrom([]string{"PANIC", "PANIC", "panic", "PANIC now :please", ":x PANIC"}).Draw(rt, "panicline")}
			}
			if !apply(e) {
				break
			}
			c.Entries = append(c.Entries, e)
		}
		c.JSON = rapid.IntRange(0, 3).Draw(rt, "json") == 0
		if rapid.Bool().Draw(rt, "withsnapshot") && len(c.Entries) > 2 {
			ns := rapid.IntRange(1, 2).Draw(rt, "nsnapshots")
			for k := 0; k < ns; k++ {
				c.SnapshotAfter = append(c.SnapshotAfter, rapid.IntRange(1, len(c.Entries)).Draw(rt, "snapshotafter"))
			}
		}
	} else {
		for _, e := range c.Entries {
			if !apply(e) {
				return vh.Failf("harness", "recorded history panics on the reference"), nil, false
			}
		}
	}
	if len(c.Entries) == 0 {
		return nil, nil, false
	}
	// the committed log, as raft would have stored it
	nodeDir := filepath.Join(dir, "node")
	os.MkdirAll(filepath.Join(nodeDir, "env0"), 0755)
	raftlogPath := filepath.Join(nodeDir, "env0", "raftlog")
	ls, err := raftstore.NewLevelDBStore(raftlogPath, false, !c.JSON)
	if err != nil {
		return vh.Failf("harness", "open raftlog: %v", err), nil, false
	}
	var logs []*raft.Log
	for _, e := range c.Entries {
		logs = append(logs, toLog(e, !c.JSON))
	}
	if err := ls.StoreLogs(logs); err != nil {
		return vh.Failf("harness", "StoreLogs: %v", err), nil, false
	}
	ls.Close()

	dumpFile := filepath.Join(dir, "dump.json")
	specFile := filepath.Join(dir, "spec.json")
	spec := c07ChildSpec{Dir: nodeDir, SnapshotAfter: nil, DumpFile: dumpFile, HorizonNano: c.Entries[0].Nano - 1, JSON: c.JSON}
	if c.JSON {
		lab["c07:json-encoding"] = true
	}
	runChild := func() (int, string) {
		sb, _ := json.Marshal(spec)
		os.WriteFile(specFile, sb, 0644)
		os.Remove(dumpFile)
		cmd := exec.Command(os.Args[0], "-test.run", "^TestVerifC07Child$", "-logtostderr=false", "-log_dir="+dir)
		cmd.Env = append(os.Environ(), "ROBUSTIRC_TESTING_ENABLE_PANIC_COMMAND=1", "VERIF_C07_CHILD="+specFile, "VERIF_OUT=", "VERIF_REPLAY=")
		out, err := cmd.CombinedOutput()
		code := 0
		if err != nil {
			code = 1
			if ee, ok := err.(*exec.ExitError); ok {
				code = ee.ExitCode()
			}
		}
		return code, string(out)
	}
	marked := map[uint64]bool{}
	for round := 0; ; round++ {
		if round > len(deaths) {
			return vh.Failf("node-keeps-dying", "the node still terminates after %d restarts although only %d entries can crash it", round, len(deaths)), keys2(lab), true
		}
		// the first start applies without snapshots; restarts may snapshot+restore
		if round > 0 {
			spec.SnapshotAfter = c.SnapshotAfter
			if len(c.SnapshotAfter) > 0 {
				lab["c07:snapshot-and-restore-after-restart"] = true
			}
		}
		// child 2 wipes the irclog/output as a restarted process would see them: irclog persists, output does not
		code, out := runChild()
		if strings.Contains(out, "childerror") {
			return vh.Failf("harness", "child: %s", out), keys2(lab), false
		}
		expectedDeath := uint64(0)
		for _, d := range deaths {
			if !marked[d] {
				expectedDeath = d
				break
			}
		}
		// inspect the durable log
		ls, err := raftstore.NewLevelDBStore(raftlogPath, false, !c.JSON)
		if err != nil {
			return vh.Failf("harness", "reopen raftlog: %v", err), keys2(lab), false
		}
		var newlyMarked []uint64
		for k, e := range c.Entries {
			var l raft.Log
			if err := ls.GetLog(e.Id, &l); err != nil {
				ls.Close()
				return vh.Failf("entry-lost", "entry %d is gone from the durable raft log after the node died: %v", e.Id, err), keys2(lab), true
			}
			got := robust.NewMessageFromBytes(l.Data, robust.IdFromRaftIndex(e.Id))
			want := toMessage(e)
			if got.Type == robust.MessageOfDeath && want.Type != robust.MessageOfDeath {
				if !marked[e.Id] {
					newlyMarked = append(newlyMarked, e.Id)
				}
				marked[e.Id] = true
				want.Type = robust.MessageOfDeath
			}
			got.InterestingFor, want.InterestingFor = nil, nil
			if fmt.Sprintf("%+v", got) != fmt.Sprintf("%+v", want) || l.Index != logs[k].Index || l.Term != logs[k].Term {
				ls.Close()
				return vh.Failf("entry-altered", "entry %d in the durable raft log changed beyond its type: committed %+v, stored %+v", e.Id, want, got), keys2(lab), true
			}
		}
		ls.Close()
		if code == 0 {
			if len(newlyMarked) > 0 {
				return vh.Failf("marked-without-dying", "entries %v were marked as message of death but the node did not terminate", newlyMarked), keys2(lab), true
			}
			break
		}
		// the node died: exactly the next expected entry must have been marked
		nextDeath := expectedDeath
		if len(newlyMarked) != 1 || nextDeath == 0 || newlyMarked[0] != nextDeath {
			tail := out
			if len(tail) > 600 {
				tail = tail[len(tail)-600:]
			}
			return vh.Failf("wrong-entry-marked", "the node terminated (exit %d); expected entry %d to be marked as message of death, newly marked: %v (expected crashing entries: %v); child output: %s", code, nextDeath, newlyMarked, deaths, tail), keys2(lab), true
		}
		lab["c07:node-died-and-marked"] = true
	}
	for _, d := range deaths {
		if !marked[d] {
			return vh.Failf("crashing-entry-not-marked", "entry %d reaches the PANIC handler (registered client) but the node neither died nor marked it", d), keys2(lab), true
		}
	}
	// the restarted node: state and outputs equal the reference that skipped the marked entries
	db, err := os.ReadFile(dumpFile)
	if err != nil {
		return vh.Failf("harness", "no dump from the surviving child: %v", err), keys2(lab), false
	}
	var dump c07Dump
	json.Unmarshal(db, &dump)
	if dump.Applied != len(c.Entries) {
		return vh.Failf("not-all-entries-applied", "the restarted node applied %d of %d entries", dump.Applied, len(c.Entries)), keys2(lab), true
	}
	if diff := vh.DiffDumps(vh.DumpServer(ref.srv), dump.State, 1000); len(diff) > 0 {
		var unknown []string
		for _, d := range diff {
			if !strings.HasPrefix(d, ".Config.WhitelistedOrigins") || len(c.SnapshotAfter) == 0 {
				unknown = append(unknown, d)
			}
		}
		if len(unknown) > 6 {
			unknown = unknown[:6]
		}
		if len(unknown) > 0 {
			return vh.Failf("state-after-replay-differs:"+vh.GenericPath(strings.SplitN(unknown[0], ": ", 2)[0]), "state of the reference that skips the marked entries (left) vs the restarted node (right): %s", strings.Join(unknown, "; ")), keys2(lab), true
		}
	}
	for _, e := range c.Entries {
		got, ok := dump.Outputs[fmt.Sprint(e.Id)]
		if !ok && len(c.SnapshotAfter) > 0 {
			continue // may have been folded into the snapshot
		}
		if ok != ref.hasOut[e.Id] || got != ref.outs[e.Id] {
			return vh.Failf("output-after-replay-differs", "output for input %d on the restarted node: %q (present=%v), reference: %q (present=%v)", e.Id, got, ok, ref.outs[e.Id], ref.hasOut[e.Id]), keys2(lab), true
		}
	}
	// the duplicate-detection marker advanced past every marked entry (stated independently of the
	// reference, which runs the same message-of-death code)
	for _, d := range deaths {
		var de ircgen.Entry
		later := false
		for _, e := range c.Entries {
			if e.Id == d {
				de = e
			} else if de.Id != 0 && e.Session == de.Session && (e.Kind == "irc" || e.Kind == "mod") {
				later = true
			}
		}
		key := fmt.Sprintf(".sessions[.Id=%d,.Reply=0].lastClientMessageId", robust.IdFromRaftIndex(de.Session))
		if got, ok := dump.State[key]; ok && !later && got != fmt.Sprint(de.CMID) {
			return vh.Failf("marker-not-advanced", "entry %d (client message id %d) was skipped as message of death, but the session's last client message id on the restarted node is %s: a retry of that message would be applied", d, de.CMID, got), keys2(lab), true
		}
		if _, ok := dump.State[key]; ok && !later {
			lab["c07:marker-checked-directly"] = true
		}
	}
	if len(deaths) > 0 {
		lab["c07:panic-reached-handler"] = true
	}
	if len(deaths) > 1 {
		lab["c07:two-messages-of-death"] = true
	}
	return nil, keys2(lab), len(deaths) > 0 && followed
}

func TestVerifC07(t *testing.T) {
	quiet()
	rec := vh.New("C07", "TestVerifC07")
	defer rec.Flush()
	base, err := os.MkdirTemp("", "c07-")
	if err != nil {
		t.Fatal(err)
	}
	defer os.RemoveAll(base)
	if vh.Replaying() {
		for _, ff := range vh.ReplayFiles("C07", "TestVerifC07") {
			var c c07Case
			if err := json.Unmarshal(ff.Case, &c); err != nil {
				t.Fatalf("bad replay case: %v", err)
			}
			if f, _, _ := c07Execute(&c, nil, base); f != nil && f.Signature != "harness" && !rec.Known(f.Signature) {
				rec.WriteFail(f, &c)
				t.Fatalf("%v", f)
			}
		}
		return
	}
	rapid.Check(t, func(rt *rapid.T) {
		c := &c07Case{}
		f, labels, nt := c07Execute(c, rt, base)
		rec.Case(vh.Fingerprint(c), nt, labels, func() interface{} { return c })
		if f != nil {
			if f.Signature == "harness" {
				rt.Skip(f.Message)
			}
			if rec.Known(f.Signature) {
				return
			}
			rec.WriteFail(f, c)
			rt.Fatalf("%v", f)
		}
	})
}
