package main

// C11: session routes need the secret of exactly that session; every private
// route answers 401 without the network password.

import (
	"encoding/json"
	"fmt"
	"os"
	"regexp"
	"sort"
	"strings"
	"testing"

	"github.com/robustirc/rafthttp"
	"github.com/robustirc/robustirc/internal/api"
	"github.com/robustirc/robustirc/internal/robust"
	"pgregory.net/rapid"
	"verif.local/verif/vh"
)

type c11Step struct {
	Kind string `json:"step"` // create | login | delete | probe | private
	Sess int    `json:"session,omitempty"`
	// probe
	Route  string `json:"route,omitempty"`  // post | get | delete
	Target string `json:"target,omitempty"` // own | other | deleted | never | malformed
	Cred   string `json:"cred,omitempty"`   // none | empty | wrong | truncated | extended | other | deleted | correct
	// private
	Method string `json:"method,omitempty"`
	Path   string `json:"path,omitempty"`
	Auth   string `json:"auth,omitempty"` // none | wronguser | wrongpw | empty | trimmed | correct
	// Password: the network password the node is configured with for this probe ("" = the default)
	Password string `json:"network_password,omitempty"`
}

type c11Case struct {
	Steps []c11Step `json:"steps"`
}

var privatePathRe = regexp.MustCompile(`case "(/[^"]*)"`)

// privatePaths: a fixed list plus whatever the current sources mention.
func privatePaths() []string {
	set := map[string]bool{}
	for _, p := range []string{"/", "/status", "/status/getmessage", "/status/sessions", "/status/irclog", "/status/state", "/irclog", "/snapshot", "/leader", "/config", "/metrics", "/join", "/part", "/quit", "/kill", "/raft/AppendEntries", "/raft/RequestVote", "/raft/InstallSnapshot", "/debug/pprof/", "/canarylog"} {
		set[p] = true
	}
	repo := os.Getenv("VERIF_REPO")
	if repo == "" {
		repo = "/repo"
	}
	for _, f := range []string{"internal/api/api.go", "robustirc.go"} {
		if b, err := os.ReadFile(repo + "/" + f); err == nil {
			for _, m := range privatePathRe.FindAllStringSubmatch(string(b), -1) {
				set[m[1]] = true
			}
		}
	}
	var l []string
	for p := range set {
		l = append(l, p)
	}
	sort.Strings(l)
	return l
}

type c11Sess struct {
	cred    sessionCred
	deleted bool
	login   bool
}

var c11Counter int

func c11Execute(c *c11Case, base string, rec *vh.Recorder) (fail *vh.Failure, labels []string, nontrivial bool) {
	c11Counter++
	dir := newNodeDir(base, c11Counter)
	defer os.RemoveAll(dir)
	n, err := startNode(dir, true)
	if err != nil {
		return vh.Failf("harness", "start: %v", err), nil, false
	}
	defer func() { n.stop() }()
	if code, body := n.setConfig(zeroCooloffConfig); code != 200 {
		return vh.Failf("harness", "config: %d %s", code, body), nil, false
	}
	lab := map[string]bool{}
	var sessions []*c11Sess
	cmid := uint64(50)
	type effect struct {
		last     uint64
		seen     robust.Id
		sessions int
		state    map[string]string
	}
	observe := func() effect {
		return effect{node.LastIndex(), outputStream.LastSeen(), ircServer.NumSessions(), vh.DumpServer(ircServer)}
	}
	for si, st := range c.Steps {
		switch st.Kind {
		case "create":
			if len(sessions) >= 5 {
				continue
			}
			cred, code := n.createSession()
			if code != 200 {
				return vh.Failf("harness", "create: %d", code), nil, false
			}
			sessions = append(sessions, &c11Sess{cred: cred})
		case "inject":
			// A request on the session's OWN route, with its own valid secret, whose JSON body carries
			// members beyond the documented {Data, ClientMessageId}: it may act on that session only.
			var a, b *c11Sess
			for _, s := range sessions {
				if s.deleted {
					continue
				}
				if a == nil {
					a = s
				} else if b == nil {
					b = s
				}
			}
			if a == nil || b == nil {
				continue
			}
			if st.Sess%2 == 1 {
				a, b = b, a
			}
			cmid++
			fields := map[string]interface{}{"Data": fmt.Sprintf("NICK hijack%d", cmid), "ClientMessageId": cmid}
			switch st.Method {
			case "session":
				fields["Session"] = map[string]interface{}{"Id": b.cred.Num}
			case "delete":
				fields["Session"] = map[string]interface{}{"Id": b.cred.Num}
				fields["Type"] = 1
				fields["Data"] = "bye"
			case "id":
				fields["Id"] = map[string]interface{}{"Id": 12345, "Reply": 7}
				fields["UnixNano"] = 1
			case "config":
				fields["Type"] = 5
				fields["Data"] = "SessionExpiration = \"1s\"\n"
				fields["Revision"] = 99
			}
			body, _ := json.Marshal(fields)
			before := observe()
			cfgBefore := n.private("GET", "/config", nil, "robustirc", nodePassword, nil).Body.String()
			r := n.public("POST", a.cred.Id+"/message", body, map[string]string{"X-Session-Auth": a.cred.Auth})
			after := observe()
			lab["c11:own-route-with-extra-body-members/"+st.Method] = true
			nontrivial = true
			needle := fmt.Sprintf(".Id=%d,", b.cred.Num)
			for _, d := range vh.DiffDumps(before.state, after.state, 50) {
				if strings.Contains(d, needle) {
					return vh.Failf("request-on-own-route-acted-on-another-session", "step #%d: POST on the route of session %s with that session's secret and body %s (answered %d) changed session %s: %s", si, a.cred.Id, body, r.Code, b.cred.Id, d), keys2(lab), true
				}
			}
			if _, err := ircServer.GetSession(robust.Id{Id: b.cred.Num}); err != nil {
				b.deleted = true
				return vh.Failf("request-on-own-route-acted-on-another-session", "step #%d: POST on the route of session %s with body %s (answered %d) ended session %s", si, a.cred.Id, body, r.Code, b.cred.Id), keys2(lab), true
			}
			if cfgAfter := n.private("GET", "/config", nil, "robustirc", nodePassword, nil).Body.String(); cfgAfter != cfgBefore {
				return vh.Failf("session-route-changed-the-configuration", "step #%d: POST on a session route with body %s (answered %d) changed the network configuration", si, body, r.Code), keys2(lab), true
			}
			if _, err := ircServer.GetSession(robust.Id{Id: a.cred.Num}); err != nil {
				a.deleted = true
			}
		case "login":
			if len(sessions) == 0 {
				continue
			}
			s := sessions[st.Sess%len(sessions)]
			if s.deleted || s.login {
				continue
			}
			for _, l := range []string{fmt.Sprintf("NICK n%d", st.Sess%len(sessions)), "USER u 0 * :r", "JOIN #c"} {
				cmid++
				n.post(s.cred, l, cmid)
			}
			s.login = true
		case "delete":
			if len(sessions) == 0 {
				continue
			}
			s := sessions[st.Sess%len(sessions)]
			if s.deleted {
				continue
			}
			if code := n.deleteSession(s.cred, "bye"); code != 200 {
				return vh.Failf("own-delete-refused", "DELETE with the session's own secret answered %d", code), keys2(lab), true
			}
			s.deleted = true
		case "probe":
			if len(sessions) == 0 {
				continue
			}
			own := sessions[st.Sess%len(sessions)]
			var other, deletedS *c11Sess
			for k, s := range sessions {
				if s != own && !s.deleted && other == nil {
					other = sessions[k]
				}
				if s.deleted && deletedS == nil {
					deletedS = sessions[k]
				}
			}
			// the addressed session
			targetId := own.cred.Id
			targetAlive := !own.deleted
			secretOfTarget := own.cred.Auth
			switch st.Target {
			case "other":
				if other == nil {
					continue
				}
				targetId, targetAlive, secretOfTarget = other.cred.Id, true, other.cred.Auth
			case "deleted":
				if deletedS == nil {
					continue
				}
				targetId, targetAlive, secretOfTarget = deletedS.cred.Id, false, deletedS.cred.Auth
			case "never":
				targetId, targetAlive, secretOfTarget = fmt.Sprintf("0x%x", node.LastIndex()+500), false, ""
			case "malformed":
				targetId, targetAlive, secretOfTarget = []string{"abc", "0xzz", "-1", "1.5", "99999999999999999999999"}[si%5], false, ""
			}
			// the presented credential
			hdr := map[string]string{}
			presented := ""
			switch st.Cred {
			case "none":
			case "empty":
				hdr["X-Session-Auth"] = ""
			case "wrong":
				presented = strings.Repeat("ab", 128)
			case "truncated":
				if len(secretOfTarget) > 2 {
					presented = secretOfTarget[:len(secretOfTarget)-1]
				} else {
					presented = "x"
				}
			case "extended":
				presented = secretOfTarget + "0"
			case "other":
				// a secret that is valid for some live session, but not for the target
				for _, s := range sessions {
					if !s.deleted && s.cred.Id != targetId {
						presented = s.cred.Auth
					}
				}
				if presented == "" {
					continue
				}
				lab["c11:secret-of-another-live-session"] = true
				nontrivial = true
			case "deleted":
				if deletedS == nil || deletedS.cred.Id == targetId {
					continue
				}
				presented = deletedS.cred.Auth
			case "correct":
				presented = secretOfTarget
			}
			if presented != "" {
				hdr["X-Session-Auth"] = presented
			}
			entitled := targetAlive && presented != "" && presented == secretOfTarget
			if st.Target == "deleted" {
				lab["c11:probe-against-deleted-session"] = true
				nontrivial = true
			}
			before := observe()
			var code int
			var body string
			switch st.Route {
			case "post":
				cmid++
				b, _ := json.Marshal(map[string]interface{}{"Data": "PRIVMSG #c :probe", "ClientMessageId": cmid})
				r := n.public("POST", targetId+"/message", b, hdr)
				code, body = r.Code, r.Body.String()
			case "get":
				var msgs []streamed
				auth := presented
				msgs, code = n.readStream(sessionCred{Id: targetId}, auth, "0.0", func(m []streamed) bool { return len(m) > 0 }, 60e6)
				if st.Cred == "empty" || st.Cred == "none" {
					// readStream only sets the header for a non-empty secret; that is what these classes want
				}
				for _, m := range msgs {
					body += m.Raw + "\n"
				}
			case "delete":
				b, _ := json.Marshal(map[string]interface{}{"Quitmessage": "probe"})
				r := n.public("DELETE", targetId, b, hdr)
				code, body = r.Code, r.Body.String()
			}
			after := observe()
			lab["c11:"+st.Route+"/"+st.Target+"/"+st.Cred] = true
			if !entitled {
				if code < 400 {
					return vh.Failf("unauthorised-request-accepted:"+st.Route, "step #%d: %s on session %s (%s) with credential class %q was answered %d", si, st.Route, targetId, st.Target, st.Cred, code), keys2(lab), true
				}
				if before.last != after.last || before.seen != after.seen || before.sessions != after.sessions {
					return vh.Failf("unauthorised-request-had-effect:"+st.Route, "step #%d: refused %s (%s/%s) changed the node: raft index %d -> %d, output %v -> %v, sessions %d -> %d", si, st.Route, st.Target, st.Cred, before.last, after.last, before.seen, after.seen, before.sessions, after.sessions), keys2(lab), true
				}
				if d := vh.DiffDumps(before.state, after.state, 3); len(d) > 0 {
					return vh.Failf("unauthorised-request-changed-state:"+st.Route, "step #%d: refused %s (%s/%s) changed the state: %s", si, st.Route, st.Target, st.Cred, strings.Join(d, "; ")), keys2(lab), true
				}
				if strings.Contains(body, "\"Data\"") || strings.Contains(body, "PRIVMSG") || strings.Contains(body, "robustirc.net 0") {
					return vh.Failf("refused-request-reveals-messages:"+st.Route, "step #%d: refused %s (%s/%s) answered with messages: %.300s", si, st.Route, st.Target, st.Cred, body), keys2(lab), true
				}
			} else {
				if code != 200 {
					return vh.Failf("authorised-request-refused:"+st.Route, "step #%d: %s with the session's own secret answered %d: %.200s", si, st.Route, code, body), keys2(lab), true
				}
				switch st.Route {
				case "post":
					if after.last != before.last+1 {
						return vh.Failf("authorised-post-without-effect", "step #%d: an authorised POST did not add exactly one log entry (%d -> %d)", si, before.last, after.last), keys2(lab), true
					}
				case "delete":
					for _, s := range sessions {
						if s.cred.Id == targetId {
							s.deleted = true
						}
					}
					if after.sessions != before.sessions-1 {
						return vh.Failf("authorised-delete-without-effect", "step #%d: an authorised DELETE left %d sessions (before: %d)", si, after.sessions, before.sessions), keys2(lab), true
					}
				}
			}
		case "private":
			// a fresh wrapper per probe keeps the wrong-password back-off at 1 ms
			// the network password of this probe: as configured, verbatim (it may come from a file or
			// an environment variable and carry blanks or a newline)
			pw := st.Password
			if pw == "" {
				pw = nodePassword
			}
			h := api.NewHTTP(ircServer, node, ircStore, outputStream, &rafthttp.HTTPTransport{}, *network, pw, dir, "n1", true, 3)
			nn := &inode{dir: dir, h: h}
			user, pass := "", ""
			switch st.Auth {
			case "wronguser":
				user, pass = "admin", pw
			case "wrongpw":
				user, pass = "robustirc", pw+"x"
			case "empty":
				user, pass = "robustirc", ""
			case "trimmed":
				// close to the password, but not the password
				user, pass = "robustirc", strings.TrimSpace(pw)
				if pass == pw {
					pass = pw[:len(pw)-1]
				}
			case "correct":
				user, pass = "robustirc", pw
			}
			if st.Auth == "correct" {
				// routes that would stop the process, change the cluster, or need a live peer are only probed without the password
				if st.Path == "/quit" || st.Path == "/join" || st.Path == "/part" || strings.HasPrefix(st.Path, "/raft/") {
					continue
				}
			}
			before := observe()
			r := nn.private(st.Method, st.Path, nil, user, pass, nil)
			after := observe()
			lab["c11:private/"+st.Auth] = true
			if st.Auth != "correct" {
				if r.Code != 401 {
					return vh.Failf("private-route-without-password", "step #%d: %s %s with credentials %q answered %d instead of 401: %.200s", si, st.Method, st.Path, st.Auth, r.Code, r.Body.String()), keys2(lab), true
				}
				if before.last != after.last || before.seen != after.seen || len(vh.DiffDumps(before.state, after.state, 1)) > 0 {
					return vh.Failf("private-route-effect-without-password", "step #%d: %s %s without the password changed the node", si, st.Method, st.Path), keys2(lab), true
				}
			} else if r.Code == 401 {
				return vh.Failf("private-route-refuses-password", "step #%d: %s %s with the network password answered 401", si, st.Method, st.Path), keys2(lab), true
			}
		}
	}
	return nil, keys2(lab), nontrivial
}

func TestVerifC11(t *testing.T) {
	quiet()
	rec := vh.New("C11", "TestVerifC11")
	defer rec.Flush()
	base, err := os.MkdirTemp("", "c11-")
	if err != nil {
		t.Fatal(err)
	}
	defer os.RemoveAll(base)
	if vh.Replaying() {
		for _, ff := range vh.ReplayFiles("C11", "TestVerifC11") {
			var c c11Case
			if err := json.Unmarshal(ff.Case, &c); err != nil {
				t.Fatalf("bad replay case: %v", err)
			}
			if f, _, _ := c11Execute(&c, base, rec); f != nil && f.Signature != "harness" && !rec.Known(f.Signature) {
				rec.WriteFail(f, &c)
				t.Fatalf("%v", f)
			}
		}
		return
	}
	paths := privatePaths()
	rapid.Check(t, func(rt *rapid.T) {
		c := &c11Case{Steps: []c11Step{{Kind: "create"}, {Kind: "create"}}}
		ns := rapid.IntRange(5, 40).Draw(rt, "nsteps")
		for k := 0; k < ns; k++ {
			var st c11Step
			switch rapid.IntRange(0, 11).Draw(rt, "kind") {
			case 0:
				st = c11Step{Kind: "create"}
			case 1:
				st = c11Step{Kind: "login", Sess: rapid.IntRange(0, 4).Draw(rt, "sess")}
			case 2:
				st = c11Step{Kind: "delete", Sess: rapid.IntRange(0, 4).Draw(rt, "sess")}
			case 3, 4, 5, 6, 7, 8:
				st = c11Step{Kind: "probe", Sess: rapid.IntRange(0, 4).Draw(rt, "sess"),
					Route:  rapid.SampledFrom([]string{"post", "get", "delete"}).Draw(rt, "route"),
					Target: rapid.SampledFrom([]string{"own", "own", "other", "deleted", "never", "malformed"}).Draw(rt, "target"),
					Cred:   rapid.SampledFrom([]string{"none", "empty", "wrong", "truncated", "extended", "other", "other", "deleted", "correct"}).Draw(rt, "cred")}
			case 9:
				st = c11Step{Kind: "inject", Sess: rapid.IntRange(0, 1).Draw(rt, "sess"), Method: rapid.SampledFrom([]string{"session", "delete", "id", "config"}).Draw(rt, "extra")}
			default:
				st = c11Step{Kind: "private", Method: rapid.SampledFrom([]string{"GET", "POST", "GET", "POST", "DELETE", "PUT", "HEAD"}).Draw(rt, "method"),
					Auth:     rapid.SampledFrom([]string{"none", "wronguser", "wrongpw", "empty", "trimmed", "correct"}).Draw(rt, "auth"),
					Password: rapid.SampledFrom([]string{"", "", "", "s3cret\n", " s3cret", "two words ", " ", "pw:with:colons"}).Draw(rt, "networkpassword")}
				if rapid.IntRange(0, 5).Draw(rt, "randompath") == 0 {
					st.Path = "/" + rapid.StringMatching(`[a-z/]{0,12}`).Draw(rt, "path")
				} else {
					st.Path = rapid.SampledFrom(paths).Draw(rt, "knownpath")
				}
			}
			c.Steps = append(c.Steps, st)
		}
		f, labels, nt := c11Execute(c, base, rec)
		rec.Case(vh.Fingerprint(c), nt, labels, func() interface{} { return c })
		if f != nil {
			if f.Signature == "harness" {
				rt.Skip(f.Message)
			}
			if rec.Known(f.Signature) {
				return
			}
			rec.WriteFail(f, c)
			rt.Fatalf("%v", f)
		}
	})
}
