package main

// C10: a retried POST (same client message id) is never applied twice, also
// across snapshot/restart and after a message-of-death entry, and the marker
// agrees between the live node and a replica that replays the durable log.

import (
	"encoding/json"
	"fmt"
	"os"
	"strings"
	"testing"
	"time"

	"github.com/golang/protobuf/proto"
	"github.com/hashicorp/raft"
	"github.com/robustirc/robustirc/internal/robust"
	"pgregory.net/rapid"
	"verif.local/verif/vh"
)

type c10Action struct {
	Kind  string `json:"action"` // create | line | retry | mod | delete | snapshot | restart
	Sess  int    `json:"session,omitempty"`
	Data  string `json:"data,omitempty"`
	Times int    `json:"times,omitempty"`
}

type c10Case struct {
	Actions []c10Action `json:"actions"`
}

type c10Sess struct {
	cred     sessionCred
	lastData string
	lastCMID uint64
	ended    bool
	posted   bool
	isLink   bool // authenticated services link: its lines are server-to-server lines
}

// replayReplica replays the durable raft log on a fresh reference instance.
func replayReplica(n *inode, tmp string) (*reference, error) {
	ref := newReference(tmp, "")
	first, err := n.logStore.FirstIndex()
	if err != nil {
		return nil, err
	}
	last, _ := n.logStore.LastIndex()
	for idx := first; idx <= last && first > 0; idx++ {
		var l raft.Log
		if err := n.logStore.GetLog(idx, &l); err != nil {
			continue
		}
		if l.Type != raft.LogCommand {
			continue
		}
		m := robust.NewMessageFromBytes(l.Data, robust.IdFromRaftIndex(l.Index))
		ref.fsm.applyRobustMessage(&m, ref.srv, ref.out)
	}
	return ref, nil
}

var c10Counter int

func c10Execute(c *c10Case, rt *rapid.T, base string) (fail *vh.Failure, labels []string, nontrivial bool) {
	c10Counter++
	dir := newNodeDir(base, c10Counter)
	defer os.RemoveAll(dir)
	n, err := startNode(dir, true)
	if err != nil {
		return vh.Failf("harness", "start: %v", err), nil, false
	}
	defer func() { n.stop() }()
	if code, body := n.setConfig(zeroCooloffConfig); code != 200 {
		return vh.Failf("harness", "config: %d %s", code, body), nil, false
	}
	lab := map[string]bool{}
	var sessions []*c10Sess
	cmid := uint64(100)
	texts := map[string]int{} // unique PRIVMSG texts posted
	compacted := map[string]bool{}
	newSession := func(nick string) (*c10Sess, *vh.Failure) {
		cred, code := n.createSession()
		if code != 200 {
			return nil, vh.Failf("harness", "create session: %d", code)
		}
		s := &c10Sess{cred: cred}
		for _, line := range []string{"NICK " + nick, "USER u 0 * :r", "JOIN #c"} {
			cmid++
			if code := n.post(cred, line, cmid); code != 200 {
				return nil, vh.Failf("harness", "registration post %q: %d", line, code)
			}
			s.lastData, s.lastCMID, s.posted = line, cmid, true
		}
		sessions = append(sessions, s)
		return s, nil
	}
	observer, f := newSession("observer")
	if f != nil {
		return f, nil, false
	}
	type snap struct {
		raftLast, ircLast uint64
		lastSeen          robust.Id
	}
	take := func() snap {
		il, _ := ircStore.LastIndex()
		return snap{node.LastIndex(), il, outputStream.LastSeen()}
	}
	checkMarkers := func(what string) *vh.Failure {
		tmp := fmt.Sprintf("%s/replica", dir)
		os.MkdirAll(tmp, 0755)
		ref, err := replayReplica(n, tmp)
		if err != nil {
			return vh.Failf("harness", "replay: %v", err)
		}
		defer ref.close()
		for k, s := range sessions {
			id := robust.Id{Id: s.cred.Num}
			live, rep := ircServer.LastPostMessage(id), ref.srv.LastPostMessage(id)
			if live != rep {
				return vh.Failf("marker-differs-between-replicas", "%s: last client message id of session #%d (%s): %d on the live node, %d on a replica that replays the durable log", what, k, s.cred.Id, live, rep)
			}
			if _, err := ircServer.GetSession(id); err == nil && s.posted && !s.ended && live != s.lastCMID {
				return vh.Failf("marker-not-last-message", "%s: session #%d posted client message id %d last, the node remembers %d", what, k, s.lastCMID, live)
			}
		}
		return nil
	}
	lastWasOther := map[int]bool{}
	sinceSnapshot := map[int]bool{}
	step := func(a c10Action) *vh.Failure {
		var s *c10Sess
		if len(sessions) > 0 {
			s = sessions[a.Sess%len(sessions)]
		}
		si := 0
		if len(sessions) > 0 {
			si = a.Sess % len(sessions)
		}
		switch a.Kind {
		case "create":
			if len(sessions) >= 5 {
				return nil
			}
			_, f := newSession(fmt.Sprintf("user%d", len(sessions)))
			return f
		case "link":
			// one more session, which authenticates as a services link (the bridge of the services
			// retries its POSTs like any other bridge)
			if len(sessions) >= 6 {
				return nil
			}
			for _, ls := range sessions {
				if ls.isLink && !ls.ended {
					return nil
				}
			}
			cred, code := n.createSession()
			if code != 200 {
				return vh.Failf("harness", "create session: %d", code)
			}
			ls := &c10Sess{cred: cred, isLink: true}
			for _, line := range []string{"PASS :services=mypass", "SERVER services.robustirc.net 1 :Services for IRC Networks", "NICK ChanServ 1 1422134861 services localhost.net services.localhost.net 0 :Channel Services"} {
				cmid++
				if code := n.post(cred, line, cmid); code != 200 {
					return vh.Failf("harness", "link post %q: %d", line, code)
				}
				ls.lastData, ls.lastCMID, ls.posted = line, cmid, true
			}
			sessions = append(sessions, ls)
			lab["c10:services-link"] = true
		case "line":
			if s.ended {
				return nil
			}
			cmid++
			data := a.Data
			if s.isLink {
				// protocol-conforming lines of a link
				switch {
				case strings.HasPrefix(data, "PRIVMSG"):
					data = "PRIVMSG" // rewritten below, with the pseudo-client as source
				case strings.HasPrefix(data, "PING"):
					data = "PING services.robustirc.net"
				case strings.HasPrefix(data, "QUIT"):
					data = ":ChanServ PART #c"
				default:
					data = ":ChanServ JOIN #c"
				}
			}
			if s == observer && strings.HasPrefix(data, "QUIT") {
				data = "PING keepalive"
			}
			if strings.HasPrefix(data, "PRIVMSG") {
				data = fmt.Sprintf("PRIVMSG #c :text-%d", cmid)
				if s.isLink {
					data = ":ChanServ " + data
				}
				texts[fmt.Sprintf("text-%d", cmid)] = si
			}
			code := 200
			if a.Times > 0 && !strings.HasPrefix(data, "QUIT") {
				// the entry was accepted by a leader whose clock is a.Times*100ms behind this node's
				// (clocks of nodes may differ by less than the election timeout, C19): it is committed
				// with an earlier timestamp than the session's previous entry
				m := &robust.Message{Type: robust.IRCFromClient, Session: robust.Id{Id: s.cred.Num}, Data: data, ClientMessageId: cmid,
					UnixNano: time.Now().Add(-time.Duration(a.Times) * 100 * time.Millisecond).UnixNano(), RemoteAddr: "192.0.2.1:4711"}
				mb, err := proto.Marshal(m.ProtoMessage())
				if err != nil {
					return vh.Failf("harness", "marshal: %v", err)
				}
				fut := node.Apply(append([]byte{'p'}, mb...), 5*time.Second)
				if err := fut.Error(); err != nil {
					return vh.Failf("harness", "raft apply: %v", err)
				}
				lab["c10:entry-with-earlier-timestamp-than-the-previous"] = true
			} else {
				code = n.post(s.cred, data, cmid)
			}
			if code != 200 {
				return vh.Failf("post-refused", "POST %q with a fresh client message id answered %d", data, code)
			}
			s.lastData, s.lastCMID, s.posted = data, cmid, true
			if strings.HasPrefix(data, "QUIT") {
				s.ended = true
			}
			for k := range sessions {
				if k != si {
					lastWasOther[k] = true
				}
			}
			lastWasOther[si] = false
			sinceSnapshot[si] = false
		case "mod":
			if s.ended {
				return nil
			}
			cmid++
			m := &robust.Message{Type: robust.MessageOfDeath, Session: robust.Id{Id: s.cred.Num}, Data: "PANIC", ClientMessageId: cmid}
			if err := n.h.ApplyMessageWait(m, 5*time.Second); err != nil {
				return vh.Failf("harness", "apply message of death: %v", err)
			}
			s.lastData, s.lastCMID, s.posted = "PANIC", cmid, true
			lab["c10:message-of-death-entry"] = true
		case "retry":
			if !s.posted {
				return nil
			}
			if lastWasOther[si] || sinceSnapshot[si] {
				nontrivial = true
			}
			for k := 0; k < a.Times; k++ {
				before := take()
				code := n.post(s.cred, s.lastData, s.lastCMID)
				after := take()
				if before != after {
					return vh.Failf("retry-applied-again", "session #%d repeated POST %q with client message id %d (already applied): raft last index %d -> %d, log copy last index %d -> %d, output stream last id %v -> %v", si, s.lastData, s.lastCMID, before.raftLast, after.raftLast, before.ircLast, after.ircLast, before.lastSeen, after.lastSeen)
				}
				if code != 200 && !(s.ended && code == 404) {
					return vh.Failf("retry-not-acknowledged", "session #%d repeated POST %q with client message id %d: HTTP %d", si, s.lastData, s.lastCMID, code)
				}
			}
			lab["c10:retry"] = true
			if s.ended {
				lab["c10:retry-after-session-end"] = true
			}
		case "delete":
			if s == observer || s.ended {
				return nil
			}
			if code := n.deleteSession(s.cred, "bye"); code != 200 {
				return vh.Failf("harness", "delete: %d", code)
			}
			s.ended = true
		case "snapshot":
			// Times > 0: the compaction time lies so far ahead that every entry is folded into the
			// snapshot state (the marker then has to survive serialization)
			*canaryCompactionStart = 0
			if a.Times > 0 {
				*canaryCompactionStart = time.Now().Add(11 * time.Minute).UnixNano()
				lab["c10:snapshot-folds-everything"] = true
				// output older than the compaction horizon is legitimately gone afterwards
				for t := range texts {
					compacted[t] = true
				}
			}
			if err := n.snapshot(); err != nil && !strings.Contains(err.Error(), "nothing new") && !strings.Contains(err.Error(), "is < 1") && !strings.Contains(err.Error(), "no messages applied") {
				return vh.Failf("snapshot-error", "raft snapshot: %v", err)
			}
			lab["c10:snapshot"] = true
			for k := range sessions {
				sinceSnapshot[k] = true
			}
		case "restart":
			nn, err := n.restart()
			if err != nil {
				return vh.Failf("restart-error", "restart: %v", err)
			}
			n = nn
			lab["c10:restart"] = true
			for k := range sessions {
				sinceSnapshot[k] = true
			}
		}
		return checkMarkers("after " + a.Kind)
	}
	if rt != nil {
		na := rapid.IntRange(4, 30).Draw(rt, "nactions")
		for k := 0; k < na; k++ {
			a := c10Action{Sess: rapid.IntRange(0, 5).Draw(rt, "session")}
			switch rapid.IntRange(0, 14).Draw(rt, "kind") {
			case 14:
				a.Kind = "link"
			case 0:
				a.Kind = "create"
			case 1, 2, 3, 4:
				a.Kind = "line"
				a.Data = rapid.SampledFrom([]string{"PRIVMSG #c :x", "PRIVMSG #c :x", "NICK renamed", "TOPIC #c :new", "AWAY :gone", "PING x", "QUIT :bye", "WHOIS observer"}).Draw(rt, "line")
				a.Times = rapid.SampledFrom([]int{0, 0, 0, 0, 1, 5, 15}).Draw(rt, "clockbehind")
			case 5, 6, 7, 8:
				a.Kind = "retry"
				a.Times = rapid.IntRange(1, 3).Draw(rt, "times")
			case 9:
				a.Kind = "mod"
			case 10:
				a.Kind = "delete"
			case 11, 12:
				a.Kind = "snapshot"
				a.Times = rapid.IntRange(0, 1).Draw(rt, "foldall")
			default:
				a.Kind = "restart"
			}
			c.Actions = append(c.Actions, a)
			if f := step(a); f != nil {
				return f, keys2(lab), nontrivial
			}
		}
	} else {
		for _, a := range c.Actions {
			if f := step(a); f != nil {
				return f, keys2(lab), nontrivial
			}
		}
	}
	// the observer saw every text exactly once
	msgs := n.readAll(observer.cred, outputStream.LastSeen().Id)
	seen := map[string]int{}
	if os.Getenv("VERIF_DEBUG") != "" {
		fmt.Fprintf(os.Stderr, "DEBUG observer %+v lastseen %v stream: %d messages\n", observer.cred.Id, outputStream.LastSeen(), len(msgs))
		for _, m := range msgs {
			fmt.Fprintf(os.Stderr, "DEBUG   %v %q\n", m.Id, m.Data)
		}
	}
	for _, m := range msgs {
		if k := strings.Index(m.Data, "text-"); k >= 0 && strings.Contains(m.Data, " PRIVMSG ") {
			seen[m.Data[k:]]++
		}
	}
	for t, who := range texts {
		if sessions[who] == observer {
			continue // a sender does not get its own channel message
		}
		if compacted[t] && seen[t] == 0 {
			continue
		}
		if seen[t] != 1 {
			return vh.Failf("message-delivered-not-exactly-once", "the observer received %q %d times", t, seen[t]), keys2(lab), nontrivial
		}
	}
	return nil, keys2(lab), nontrivial
}

func TestVerifC10(t *testing.T) {
	quiet()
	rec := vh.New("C10", "TestVerifC10")
	defer rec.Flush()
	base, err := os.MkdirTemp("", "c10-")
	if err != nil {
		t.Fatal(err)
	}
	defer os.RemoveAll(base)
	if vh.Replaying() {
		for _, ff := range vh.ReplayFiles("C10", "TestVerifC10") {
			var c c10Case
			if err := json.Unmarshal(ff.Case, &c); err != nil {
				t.Fatalf("bad replay case: %v", err)
			}
			if f, _, _ := c10Execute(&c, nil, base); f != nil && f.Signature != "harness" && !rec.Known(f.Signature) {
				rec.WriteFail(f, &c)
				t.Fatalf("%v", f)
			}
		}
		return
	}
	rapid.Check(t, func(rt *rapid.T) {
		c := &c10Case{}
		f, labels, nt := c10Execute(c, rt, base)
		rec.Case(vh.Fingerprint(c), nt, labels, func() interface{} { return c })
		if f != nil {
			if f.Signature == "harness" {
				rt.Skip(f.Message)
			}
			if rec.Known(f.Signature) {
				return
			}
			rec.WriteFail(f, c)
			rt.Fatalf("%v", f)
		}
	})
}
