package main

// Units that need a network of several real nodes (three robustirc binaries,
// TLS, real raft transport), beside the fault schedules of C05:
//
//   - C16 (TestVerifC16Cluster): a configuration update posted to a node that
//     is NOT the leader (with and without a declared body length, as
//     robustirc-editconfig posts it). If it is answered with success, every
//     node serves the posted text under the next revision.
//   - C11 (TestVerifC11Cluster): the routes of a session that was created a
//     moment ago, asked for on the OTHER nodes (which may not have applied the
//     CreateSession entry yet) with a wrong secret or another session's secret:
//     never a success, never a message stream.
//
// A single node that is always the leader cannot show what a follower does
// differently (proxying to the leader, lagging behind, waiting for entries).

import (
	"bytes"
	"context"
	"crypto/tls"
	"crypto/x509"
	"encoding/json"
	"fmt"
	"io"
	"net/http"
	"os"
	"path/filepath"
	"strings"
	"testing"
	"time"

	"pgregory.net/rapid"
	"verif.local/verif/vh"
)

// clusterUp starts three nodes. why != "" means the network could not be used (inconclusive).
func clusterUp(base string, k int, portBase int) (cl *cluster, why string) {
	bin := os.Getenv("VERIF_ROBUSTIRC_BIN")
	if bin == "" {
		return nil, "no robustirc binary"
	}
	dir := filepath.Join(base, fmt.Sprintf("cluster%d", k))
	os.MkdirAll(dir, 0755)
	cert, key, err := genCert(dir)
	if err != nil {
		return nil, "cert: " + err.Error()
	}
	pemBytes, _ := os.ReadFile(cert)
	pool := x509.NewCertPool()
	pool.AppendCertsFromPEM(pemBytes)
	shard := vh.EnvInt("VERIF_SHARD", 0)
	if shard < 0 {
		shard = 17
	}
	basePort := portBase + (shard%40)*20 + (os.Getpid()%5)*4
	cl = &cluster{dir: dir, bin: bin, cert: cert, key: key,
		client: &http.Client{Transport: &http.Transport{TLSClientConfig: &tls.Config{RootCAs: pool}, MaxIdleConnsPerHost: 4, DisableKeepAlives: true}}}
	for i := 0; i < 3; i++ {
		nd := filepath.Join(dir, fmt.Sprintf("n%d", i+1))
		os.MkdirAll(nd, 0755)
		cl.nodes = append(cl.nodes, &clNode{idx: i, addr: fmt.Sprintf("localhost:%d", basePort+i+1), dir: nd})
	}
	if err := cl.start(cl.nodes[0], "single"); err != nil {
		return cl, "start node 1: " + err.Error()
	}
	if !cl.healthy(30 * time.Second) {
		return cl, "node 1 did not become leader"
	}
	for _, n := range cl.nodes[1:] {
		if err := cl.start(n, "join"); err != nil {
			return cl, "start: " + err.Error()
		}
		time.Sleep(500 * time.Millisecond)
	}
	if !cl.healthy(40 * time.Second) {
		return cl, "three-node network did not become healthy"
	}
	return cl, ""
}

func (c *cluster) down() {
	c.stopAll()
	os.RemoveAll(c.dir)
}

// follower returns a live node that is not the leader, and the leader.
func (c *cluster) follower(skip int) (*clNode, *clNode) {
	var leader *clNode
	for _, n := range c.nodes {
		if n.alive && c.leaderOf(n) == n.addr {
			leader = n
		}
	}
	if leader == nil {
		return nil, nil
	}
	k := 0
	for _, n := range c.nodes {
		if n.alive && n != leader {
			if k == skip%2 {
				return n, leader
			}
			k++
		}
	}
	return nil, leader
}

// chunked hides the length of a body from net/http (the request goes out with
// Transfer-Encoding: chunked, as it does when the body is a file).
type chunked struct{ io.Reader }

func (c *cluster) privateChunked(n *clNode, method, path string, body []byte, hdr map[string]string, timeout time.Duration) (int, string, http.Header) {
	ctx, cancel := context.WithTimeout(context.Background(), timeout)
	defer cancel()
	req, _ := http.NewRequestWithContext(ctx, method, "https://"+n.addr+path, chunked{bytes.NewReader(body)})
	req.SetBasicAuth("robustirc", clPassword)
	for k, v := range hdr {
		req.Header.Set(k, v)
	}
	resp, err := c.client.Do(req)
	if err != nil {
		return 0, err.Error(), nil
	}
	defer resp.Body.Close()
	b, _ := io.ReadAll(resp.Body)
	return resp.StatusCode, string(b), resp.Header
}

// ---- C16 ----

type c16clCase struct {
	Posts []c16clPost `json:"posts"`
}

type c16clPost struct {
	Via     string `json:"via"` // follower | leader
	Chunked bool   `json:"body_without_declared_length"`
	Marker  int    `json:"max_channels_value"` // makes every posted text different
}

func c16clExecute(c *c16clCase, base string, k int) (fail *vh.Failure, labels []string, nontrivial bool) {
	cl, why := clusterUp(base, k, 27000)
	if cl != nil {
		defer cl.down()
	}
	if why != "" {
		return vh.Failf("harness", "network not usable (%s): inconclusive", why), nil, false
	}
	lab := map[string]bool{}
	for pi, p := range c.Posts {
		fo, leader := cl.follower(pi)
		target := leader
		if p.Via == "follower" {
			target = fo
		}
		if target == nil || leader == nil {
			return vh.Failf("harness", "no leader/follower"), keys2(lab), false
		}
		code, _, hdr := cl.private(leader, "GET", "/config", nil, nil, 5*time.Second)
		if code != 200 {
			return vh.Failf("harness", "GET /config: %d", code), keys2(lab), false
		}
		rev := hdr.Get("X-RobustIRC-Config-Revision")
		text := zeroCooloffConfig + fmt.Sprintf("MaxChannels = %d\n", p.Marker)
		// MaxChannels belongs to the top-level table: put it first
		text = fmt.Sprintf("MaxChannels = %d\n", p.Marker) + zeroCooloffConfig
		h := map[string]string{"X-RobustIRC-Config-Revision": rev}
		var pcode int
		var pbody string
		if p.Chunked {
			pcode, pbody, _ = cl.privateChunked(target, "POST", "/config", []byte(text), h, 10*time.Second)
		} else {
			pcode, pbody, _ = cl.private(target, "POST", "/config", []byte(text), h, 10*time.Second)
		}
		lab["c16cl:posted-via-"+p.Via] = true
		if p.Chunked {
			lab["c16cl:body-without-declared-length"] = true
		}
		if pcode != 200 {
			// not accepted (a proxy error is not an acceptance): nothing may have changed
			time.Sleep(300 * time.Millisecond)
			for _, n := range cl.nodes {
				c2, body, h2 := cl.private(n, "GET", "/config", nil, nil, 5*time.Second)
				if c2 == 200 && h2.Get("X-RobustIRC-Config-Revision") != rev && strings.Contains(body, fmt.Sprintf("MaxChannels = %d", p.Marker)) {
					// it did take effect although the poster was told it failed: allowed (the answer got lost)
					continue
				}
				if c2 == 200 && h2.Get("X-RobustIRC-Config-Revision") != rev {
					return vh.Failf("cluster:refused-update-changed-the-configuration", "POST /config via the %s (declared length: %v) answered %d %.100q, yet node %d is at revision %s (was %s) with a configuration that is not the posted one: %.200q", p.Via, !p.Chunked, pcode, pbody, n.idx+1, h2.Get("X-RobustIRC-Config-Revision"), rev, body), keys2(lab), true
				}
			}
			continue
		}
		nontrivial = nontrivial || p.Via == "follower"
		// accepted: every node serves the posted text under the next revision
		deadline := time.Now().Add(10 * time.Second)
		for _, n := range cl.nodes {
			okNode := false
			var lastBody, lastRev string
			for time.Now().Before(deadline) && !okNode {
				c2, body, h2 := cl.private(n, "GET", "/config", nil, nil, 5*time.Second)
				if c2 == 200 {
					lastBody, lastRev = body, h2.Get("X-RobustIRC-Config-Revision")
					if lastRev != rev {
						okNode = true
					}
				}
				if !okNode {
					time.Sleep(100 * time.Millisecond)
				}
			}
			if !okNode {
				return vh.Failf("cluster:accepted-update-not-in-force", "POST /config via the %s (declared length: %v) with revision %s was answered 200, node %d still serves revision %s ten seconds later", p.Via, !p.Chunked, rev, n.idx+1, lastRev), keys2(lab), true
			}
			if !strings.Contains(lastBody, fmt.Sprintf("MaxChannels = %d", p.Marker)) || !strings.Contains(lastBody, "mypass") || !strings.Contains(lastBody, "Name = \"op\"") {
				return vh.Failf("cluster:accepted-update-is-not-the-posted-text", "POST /config via the %s (declared length: %v) was answered 200; node %d now serves revision %s with %.300q instead of the posted text (MaxChannels = %d, one operator, one services password)", p.Via, !p.Chunked, n.idx+1, lastRev, lastBody, p.Marker), keys2(lab), true
			}
		}
	}
	return nil, keys2(lab), nontrivial
}

func TestVerifC16Cluster(t *testing.T) {
	rec := vh.New("C16", "TestVerifC16Cluster")
	defer rec.Flush()
	base, err := os.MkdirTemp("", "c16c-")
	if err != nil {
		t.Fatal(err)
	}
	defer os.RemoveAll(base)
	if vh.Replaying() {
		for _, ff := range vh.ReplayFiles("C16", "TestVerifC16Cluster") {
			var c c16clCase
			if err := json.Unmarshal(ff.Case, &c); err != nil {
				t.Fatalf("bad replay case: %v", err)
			}
			if f, _, _ := c16clExecute(&c, base, 0); f != nil && f.Signature != "harness" && !rec.Known(f.Signature) {
				rec.WriteFail(f, &c)
				t.Fatalf("%v", f)
			}
		}
		return
	}
	k := 0
	rapid.Check(t, func(rt *rapid.T) {
		k++
		c := &c16clCase{}
		n := rapid.IntRange(2, 4).Draw(rt, "nposts")
		for i := 0; i < n; i++ {
			c.Posts = append(c.Posts, c16clPost{Via: rapid.SampledFrom([]string{"follower", "follower", "leader"}).Draw(rt, "via"),
				Chunked: rapid.Bool().Draw(rt, "chunked"), Marker: 10 + i*7 + rapid.IntRange(0, 5).Draw(rt, "marker")})
		}
		f, labels, nt := c16clExecute(c, base, k)
		if f != nil && f.Signature == "harness" {
			rec.Label("c16cl:inconclusive")
			return
		}
		rec.Case(vh.Fingerprint(c), nt, labels, func() interface{} { return c })
		if f != nil {
			if rec.Known(f.Signature) {
				return
			}
			rec.WriteFail(f, c)
			rt.Fatalf("%v", f)
		}
	})
}

// ---- C11 ----

type c11clCase struct {
	Sessions int      `json:"sessions"`
	Secrets  []string `json:"wrong_secret_classes"` // junk | other | truncated
}

func c11clExecute(c *c11clCase, base string, k int) (fail *vh.Failure, labels []string, nontrivial bool) {
	cl, why := clusterUp(base, k, 25000)
	if cl != nil {
		defer cl.down()
	}
	if why != "" {
		return vh.Failf("harness", "network not usable (%s): inconclusive", why), nil, false
	}
	lab := map[string]bool{}
	first, ok := cl.createSession(time.Now().Add(20 * time.Second))
	if !ok {
		return vh.Failf("harness", "create"), nil, false
	}
	notYet := 0
	for s := 0; s < c.Sessions; s++ {
		// created through one node ...
		via := cl.nodes[s%3]
		code, b := cl.public(via, "POST", "session", nil, "", 6*time.Second)
		var cs struct{ Sessionid, Sessionauth string }
		if code != 200 || json.Unmarshal(b, &cs) != nil || cs.Sessionid == "" {
			continue
		}
		// ... and asked for on the others right away
		for _, class := range c.Secrets {
			secret := "this-is-not-the-secret"
			switch class {
			case "other":
				secret = first.auth
			case "truncated":
				secret = cs.Sessionauth[:len(cs.Sessionauth)/2]
			}
			for _, n := range cl.nodes {
				if n == via {
					continue
				}
				ctx, cancel := context.WithTimeout(context.Background(), 7*time.Second)
				req, _ := http.NewRequestWithContext(ctx, "GET", "https://"+n.addr+"/robustirc/v1/"+cs.Sessionid+"/messages?lastseen=0.0", nil)
				req.Header.Set("X-Session-Auth", secret)
				resp, err := cl.client.Do(req)
				if err != nil {
					cancel()
					continue
				}
				status := resp.StatusCode
				buf := make([]byte, 256)
				nread := 0
				if status == 200 {
					// a stream: read its beginning, do not wait for the long poll to end
					done := make(chan int, 1)
					go func() { m, _ := resp.Body.Read(buf); done <- m }()
					select {
					case nread = <-done:
					case <-time.After(500 * time.Millisecond):
					}
				}
				cancel()
				resp.Body.Close()
				lab["c11cl:get/"+class] = true
				if status == 500 {
					notYet++
				}
				if status == 200 {
					return vh.Failf("cluster:unauthorised-read-accepted", "session %s was created through node %d; GET messages for it on node %d with a wrong secret (class %q) answered 200 and began a stream: %.120q", cs.Sessionid, via.idx+1, n.idx+1, class, buf[:nread]), keys2(lab), true
				}
				body, _ := json.Marshal(map[string]interface{}{"Data": "NICK intruder", "ClientMessageId": 4711})
				if pc, _ := cl.public(n, "POST", cs.Sessionid+"/message", body, secret, 6*time.Second); pc == 200 {
					return vh.Failf("cluster:unauthorised-post-accepted", "session %s: POST message on node %d with a wrong secret (class %q) answered 200", cs.Sessionid, n.idx+1, class), keys2(lab), true
				}
			}
		}
	}
	if notYet > 0 {
		lab["c11cl:asked-a-node-that-had-not-seen-the-session-yet"] = true
	}
	return nil, keys2(lab), notYet > 0
}

func TestVerifC11Cluster(t *testing.T) {
	rec := vh.New("C11", "TestVerifC11Cluster")
	defer rec.Flush()
	base, err := os.MkdirTemp("", "c11c-")
	if err != nil {
		t.Fatal(err)
	}
	defer os.RemoveAll(base)
	if vh.Replaying() {
		for _, ff := range vh.ReplayFiles("C11", "TestVerifC11Cluster") {
			var c c11clCase
			if err := json.Unmarshal(ff.Case, &c); err != nil {
				t.Fatalf("bad replay case: %v", err)
			}
			if f, _, _ := c11clExecute(&c, base, 0); f != nil && f.Signature != "harness" && !rec.Known(f.Signature) {
				rec.WriteFail(f, &c)
				t.Fatalf("%v", f)
			}
		}
		return
	}
	k := 0
	rapid.Check(t, func(rt *rapid.T) {
		k++
		c := &c11clCase{Sessions: rapid.IntRange(6, 14).Draw(rt, "sessions"),
			Secrets: rapid.SliceOfNDistinct(rapid.SampledFrom([]string{"junk", "other", "truncated"}), 1, 3, func(s string) string { return s }).Draw(rt, "secrets")}
		f, labels, nt := c11clExecute(c, base, k)
		if f != nil && f.Signature == "harness" {
			rec.Label("c11cl:inconclusive")
			return
		}
		rec.Case(vh.Fingerprint(c), nt, labels, func() interface{} { return c })
		if f != nil {
			if rec.Known(f.Signature) {
				return
			}
			rec.WriteFail(f, c)
			rt.Fatalf("%v", f)
		}
	})
}
