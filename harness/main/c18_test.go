package main

// C18 (unit main): the readers of the log copy that are inlined in package
// main - FSM.Snapshot/Persist + FSM.Restore (decodeProtobuf / decodeJson) and
// the text-log dump - decode what FSM.Apply wrote exactly like the store does.

import (
	"encoding/csv"
	"encoding/json"
	"fmt"
	"os"
	"path/filepath"
	"reflect"
	"strings"
	"testing"
	"time"

	"github.com/hashicorp/raft"
	"github.com/robustirc/rafthttp"
	"github.com/robustirc/robustirc/internal/robust"
	"pgregory.net/rapid"
	"verif.local/verif/ircgen"
	"verif.local/verif/vh"
)

type c18mEntry struct {
	E        ircgen.Entry `json:"entry"`
	Term     uint64       `json:"term"`
	Ext      []byte       `json:"extensions,omitempty"`
	Appended int64        `json:"appended_at_ns"`
}

type c18mCase struct {
	JSON    bool        `json:"legacy_json_encoding"`
	Entries []c18mEntry `json:"entries"`
}

var c18mCounter int

func c18mCheck(c *c18mCase, base string) *vh.Failure {
	c18mCounter++
	env := newFsmEnv(base, 100000+c18mCounter, !c.JSON)
	defer env.close()
	var logs []*raft.Log
	for _, ce := range c.Entries {
		l := toLog(ce.E, !c.JSON)
		l.Term, l.Extensions = ce.Term, ce.Ext
		l.AppendedAt = time.Time{}
		if ce.Appended != 0 {
			l.AppendedAt = time.Unix(0, ce.Appended)
		}
		logs = append(logs, l)
		env.fsm.Apply(l)
	}
	if len(logs) == 0 {
		return nil
	}
	// text-log dump before anything is compacted
	dumpDir := filepath.Join(env.dir, "textlog")
	if err := dumpLogToDisk1(env.fsm, dumpDir); err != nil {
		return vh.Failf("textlog-dump-error", "dumpLogToDisk1: %v", err)
	}
	var rows [][]string
	files, _ := filepath.Glob(filepath.Join(dumpDir, "*", "*.csv"))
	for _, f := range files {
		fh, err := os.Open(f)
		if err != nil {
			continue
		}
		r := csv.NewReader(fh)
		r.FieldsPerRecord = -1
		rr, err := r.ReadAll()
		fh.Close()
		if err != nil {
			return vh.Failf("textlog-unreadable", "csv: %v", err)
		}
		rows = append(rows, rr...)
	}
	var want [][]string
	for _, ce := range c.Entries {
		if ce.E.Kind != "irc" {
			continue
		}
		ts := time.Unix(0, ce.E.Nano).Format(time.RFC3339)
		want = append(want, []string{fmt.Sprintf("%d.0", robust.IdFromRaftIndex(ce.E.Id)), ce.E.Addr, fmt.Sprintf("0x%x", robust.IdFromRaftIndex(ce.E.Session)), ts, ce.E.Data})
		if msgs, ok := outputStream.Get(robust.Id{Id: robust.IdFromRaftIndex(ce.E.Id)}); ok {
			for _, m := range msgs {
				want = append(want, []string{fmt.Sprintf("%d.%d", m.Id.Id, m.Id.Reply), "", "", ts, m.Data})
			}
		}
	}
	if !reflect.DeepEqual(rows, want) && !(len(rows) == 0 && len(want) == 0) {
		for k := 0; k < len(rows) || k < len(want); k++ {
			var a, b []string
			if k < len(rows) {
				a = rows[k]
			}
			if k < len(want) {
				b = want[k]
			}
			if !reflect.DeepEqual(a, b) {
				return vh.Failf("textlog-row-differs", "text-log row #%d: dumped %q, expected %q", k, a, b)
			}
		}
	}
	// snapshot with everything retained, persist, restore: the restored log copy equals the original entries
	*canaryCompactionStart = c.Entries[0].E.Nano - int64(time.Hour)
	if *canaryCompactionStart <= 0 {
		*canaryCompactionStart = 1
	}
	snap, err := env.fsm.Snapshot()
	if err != nil {
		return vh.Failf("snapshot-error", "Snapshot: %v", err)
	}
	sink, err := env.fss.Create(1, logs[len(logs)-1].Index, 1, raft.Configuration{}, 0, &rafthttp.HTTPTransport{})
	if err != nil {
		return vh.Failf("harness", "fss.Create: %v", err)
	}
	if err := snap.Persist(sink); err != nil {
		return vh.Failf("persist-error", "Persist: %v", err)
	}
	sink.Close()
	snaps, _ := env.fss.List()
	_, rc, err := env.fss.Open(snaps[0].ID)
	if err != nil {
		return vh.Failf("harness", "open: %v", err)
	}
	if err := env.fsm.Restore(rc); err != nil {
		return vh.Failf("restore-error", "Restore: %v", err)
	}
	for k, l := range logs {
		var got raft.Log
		if err := env.fsm.ircstore.GetLog(l.Index, &got); err != nil {
			return vh.Failf("restored-entry-missing", "entry %d is not in the restored log copy: %v", l.Index, err)
		}
		if got.Index != l.Index || got.Term != l.Term || got.Type != l.Type || string(got.Extensions) != string(l.Extensions) || !got.AppendedAt.Equal(l.AppendedAt) {
			return vh.Failf("restored-entry-header-differs", "entry #%d after snapshot+restore: index/term/type/extensions/appended %d/%d/%d/%x/%v, applied as %d/%d/%d/%x/%v", k, got.Index, got.Term, got.Type, got.Extensions, got.AppendedAt, l.Index, l.Term, l.Type, l.Extensions, l.AppendedAt)
		}
		if !sameLogPayload(got.Data, l.Data, l.Index) {
			return vh.Failf("restored-entry-data-differs", "entry #%d after snapshot+restore decodes to another message: %q vs %q", k, got.Data, l.Data)
		}
	}
	return nil
}

func TestVerifC18Main(t *testing.T) {
	quiet()
	rec := vh.New("C18", "TestVerifC18Main")
	defer rec.Flush()
	base, err := os.MkdirTemp("", "c18m-")
	if err != nil {
		t.Fatal(err)
	}
	defer os.RemoveAll(base)
	if vh.Replaying() {
		for _, ff := range vh.ReplayFiles("C18", "TestVerifC18Main") {
			var c c18mCase
			if err := json.Unmarshal(ff.Case, &c); err != nil {
				t.Fatalf("bad replay case: %v", err)
			}
			if f := c18mCheck(&c, base); f != nil && f.Signature != "harness" && !rec.Known(f.Signature) {
				rec.WriteFail(f, &c)
				t.Fatalf("%v", f)
			}
		}
		return
	}
	n := 0
	rapid.Check(t, func(rt *rapid.T) {
		n++
		tmp := fmt.Sprintf("%s/g%d", base, n)
		os.MkdirAll(tmp, 0755)
		defer os.RemoveAll(tmp)
		entries, ref := genHistory(rt, tmp, ircgen.Options{WithMoD: true, NoBigJumps: true}, 3, 25)
		ref.close()
		c := &c18mCase{JSON: rapid.IntRange(0, 4).Draw(rt, "json") == 0}
		nz := 0
		for _, e := range entries {
			ce := c18mEntry{E: e, Term: rapid.Uint64Range(0, 9).Draw(rt, "term")}
			if rapid.IntRange(0, 2).Draw(rt, "hasext") == 0 {
				ce.Ext = rapid.SliceOfN(rapid.Byte(), 1, 6).Draw(rt, "ext")
				nz++
			}
			if rapid.IntRange(0, 3).Draw(rt, "appended") != 0 {
				ce.Appended = e.Nano + int64(rapid.IntRange(0, 1000).Draw(rt, "appendeddelta"))
			}
			c.Entries = append(c.Entries, ce)
		}
		irc := 0
		for _, e := range entries {
			if e.Kind == "irc" && strings.TrimSpace(e.Data) != "" {
				irc++
			}
		}
		rec.Case(vh.Fingerprint(c), nz > 0 && irc >= 2, []string{"c18:main"}, func() interface{} { return c })
		if f := c18mCheck(c, base); f != nil {
			if f.Signature == "harness" {
				rt.Skip(f.Message)
			}
			if rec.Known(f.Signature) {
				return
			}
			rec.WriteFail(f, c)
			rt.Fatalf("%v", f)
		}
	})
}
