package main

// C05 (unit b): three real robustirc binaries on loopback, HTTPS clients that
// follow the bridge's protocol, generated kill / restart / pause / snapshot /
// kill-all faults. After healing every node must deliver every acknowledged
// message exactly once, in posting order, and all nodes the same sequence.

import (
	"bytes"
	"context"
	"crypto/ecdsa"
	"crypto/elliptic"
	"crypto/rand"
	"crypto/tls"
	"crypto/x509"
	"crypto/x509/pkix"
	"encoding/json"
	"encoding/pem"
	"fmt"
	"io"
	"math/big"
	"net"
	"net/http"
	"os"
	"os/exec"
	"path/filepath"
	"strings"
	"sync"
	"syscall"
	"testing"
	"time"

	"github.com/robustirc/robustirc/internal/robust"
	"pgregory.net/rapid"
	"verif.local/verif/vh"
)

type clFault struct {
	Kind    string `json:"fault"` // kill | restart | pause | snapshot | killall | wait
	Node    int    `json:"node"`
	AfterMs int    `json:"after_ms"`
	ForMs   int    `json:"for_ms,omitempty"`
}

type clCase struct {
	Messages int       `json:"messages_per_sender"`
	Faults   []clFault `json:"faults"`
}

type clNode struct {
	idx   int
	addr  string
	dir   string
	cmd   *exec.Cmd
	alive bool
}

type cluster struct {
	dir    string
	bin    string
	nodes  []*clNode
	client *http.Client
	cert   string
	key    string

	lastStatus int // HTTP status of the most recent readStream (0: no answer)
}

const clPassword = "clusterpw"

func genCert(dir string) (string, string, error) {
	priv, err := ecdsa.GenerateKey(elliptic.P256(), rand.Reader)
	if err != nil {
		return "", "", err
	}
	tmpl := x509.Certificate{
		SerialNumber:          big.NewInt(1),
		Subject:               pkix.Name{CommonName: "localhost"},
		NotBefore:             time.Now().Add(-time.Hour),
		NotAfter:              time.Now().Add(24 * time.Hour),
		KeyUsage:              x509.KeyUsageDigitalSignature | x509.KeyUsageCertSign,
		ExtKeyUsage:           []x509.ExtKeyUsage{x509.ExtKeyUsageServerAuth, x509.ExtKeyUsageClientAuth},
		BasicConstraintsValid: true,
		IsCA:                  true,
		DNSNames:              []string{"localhost"},
		IPAddresses:           []net.IP{net.ParseIP("127.0.0.1")},
	}
	der, err := x509.CreateCertificate(rand.Reader, &tmpl, &tmpl, &priv.PublicKey, priv)
	if err != nil {
		return "", "", err
	}
	certPath, keyPath := filepath.Join(dir, "cert.pem"), filepath.Join(dir, "key.pem")
	cf, _ := os.Create(certPath)
	pem.Encode(cf, &pem.Block{Type: "CERTIFICATE", Bytes: der})
	cf.Close()
	kb, err := x509.MarshalECPrivateKey(priv)
	if err != nil {
		return "", "", err
	}
	kf, _ := os.Create(keyPath)
	pem.Encode(kf, &pem.Block{Type: "EC PRIVATE KEY", Bytes: kb})
	kf.Close()
	return certPath, keyPath, nil
}

func (c *cluster) start(n *clNode, mode string) error {
	args := []string{"-network_name=verif.localhost", "-tls_cert_path=" + c.cert, "-tls_ca_file=" + c.cert, "-tls_key_path=" + c.key,
		"-listen=" + n.addr, "-peer_addr=" + n.addr, "-disable_timesafeguard", "-raftdir=" + n.dir, "-log_dir=" + n.dir}
	switch mode {
	case "single":
		args = append(args, "-singlenode")
	case "join":
		args = append(args, "-join="+c.nodes[0].addr)
	}
	cmd := exec.Command(c.bin, args...)
	cmd.Env = append(os.Environ(), "ROBUSTIRC_NETWORK_PASSWORD="+clPassword)
	out, _ := os.OpenFile(filepath.Join(n.dir, "stdout.txt"), os.O_CREATE|os.O_APPEND|os.O_WRONLY, 0644)
	cmd.Stdout, cmd.Stderr = out, out
	if err := cmd.Start(); err != nil {
		return err
	}
	n.cmd, n.alive = cmd, true
	go func() { cmd.Wait(); out.Close() }()
	return nil
}

func (c *cluster) kill(n *clNode) {
	if n.cmd != nil && n.cmd.Process != nil {
		n.cmd.Process.Signal(syscall.SIGCONT)
		n.cmd.Process.Kill()
	}
	n.alive = false
}

func (c *cluster) stopAll() {
	for _, n := range c.nodes {
		c.kill(n)
	}
	time.Sleep(100 * time.Millisecond)
}

func (c *cluster) private(n *clNode, method, path string, body []byte, hdr map[string]string, timeout time.Duration) (int, string, http.Header) {
	ctx, cancel := context.WithTimeout(context.Background(), timeout)
	defer cancel()
	req, _ := http.NewRequestWithContext(ctx, method, "https://"+n.addr+path, bytes.NewReader(body))
	req.SetBasicAuth("robustirc", clPassword)
	for k, v := range hdr {
		req.Header.Set(k, v)
	}
	resp, err := c.client.Do(req)
	if err != nil {
		return 0, err.Error(), nil
	}
	defer resp.Body.Close()
	b, _ := io.ReadAll(resp.Body)
	return resp.StatusCode, string(b), resp.Header
}

func (c *cluster) leaderOf(n *clNode) string {
	code, body, _ := c.private(n, "GET", "/leader", nil, nil, 2*time.Second)
	if code != 200 {
		return ""
	}
	return strings.TrimSpace(body)
}

// healthy waits until every live node names the same live leader.
func (c *cluster) healthy(deadline time.Duration) bool {
	end := time.Now().Add(deadline)
	for time.Now().Before(end) {
		leaders := map[string]int{}
		live := 0
		for _, n := range c.nodes {
			if !n.alive {
				continue
			}
			live++
			if l := c.leaderOf(n); l != "" {
				leaders[l]++
			}
		}
		for l, cnt := range leaders {
			if cnt == live && live > 0 {
				for _, n := range c.nodes {
					if n.addr == l && n.alive {
						return true
					}
				}
			}
		}
		time.Sleep(200 * time.Millisecond)
	}
	return false
}

type clClient struct {
	name    string
	id      string
	auth    string
	server  int
	acked   []string
	unacked []string
	gone    bool
}

func (c *cluster) public(n *clNode, method, path string, body []byte, auth string, timeout time.Duration) (int, []byte) {
	ctx, cancel := context.WithTimeout(context.Background(), timeout)
	defer cancel()
	req, _ := http.NewRequestWithContext(ctx, method, "https://"+n.addr+"/robustirc/v1/"+path, bytes.NewReader(body))
	if auth != "" {
		req.Header.Set("X-Session-Auth", auth)
	}
	resp, err := c.client.Do(req)
	if err != nil {
		return 0, nil
	}
	defer resp.Body.Close()
	b, _ := io.ReadAll(resp.Body)
	return resp.StatusCode, b
}

// send follows the bridge: one message in flight, the same client message id on every retry, next server on error.
func (c *cluster) send(cl *clClient, line string, cmid uint64, deadline time.Time) bool {
	body, _ := json.Marshal(map[string]interface{}{"Data": line, "ClientMessageId": cmid})
	for time.Now().Before(deadline) {
		n := c.nodes[cl.server%len(c.nodes)]
		code, _ := c.public(n, "POST", cl.id+"/message", body, cl.auth, 6*time.Second)
		if code == 200 {
			return true
		}
		if code == 404 {
			cl.gone = true
			return false
		}
		cl.server++
		time.Sleep(150 * time.Millisecond)
	}
	return false
}

func (c *cluster) createSession(deadline time.Time) (*clClient, bool) {
	k := 0
	for time.Now().Before(deadline) {
		n := c.nodes[k%len(c.nodes)]
		k++
		code, b := c.public(n, "POST", "session", nil, "", 6*time.Second)
		if code == 200 {
			var cs struct{ Sessionid, Sessionauth string }
			if json.Unmarshal(b, &cs) == nil && cs.Sessionid != "" {
				return &clClient{id: cs.Sessionid, auth: cs.Sessionauth, server: k}, true
			}
		}
		time.Sleep(200 * time.Millisecond)
	}
	return nil, false
}

// readStream reads a session's stream from the start on one node until the sentinel shows up.
func (c *cluster) readStream(n *clNode, cl *clClient, sentinel string, maxWait time.Duration) ([]streamed, bool) {
	c.lastStatus = 0
	ctx, cancel := context.WithTimeout(context.Background(), maxWait)
	defer cancel()
	req, _ := http.NewRequestWithContext(ctx, "GET", "https://"+n.addr+"/robustirc/v1/"+cl.id+"/messages?lastseen=0.0", nil)
	req.Header.Set("X-Session-Auth", cl.auth)
	resp, err := c.client.Do(req)
	if err != nil {
		return nil, false
	}
	defer resp.Body.Close()
	c.lastStatus = resp.StatusCode
	if resp.StatusCode != 200 {
		return nil, false
	}
	var out []streamed
	dec := json.NewDecoder(resp.Body)
	for {
		var m robust.Message
		if err := dec.Decode(&m); err != nil {
			return out, false
		}
		if m.Type == robust.Ping {
			continue
		}
		out = append(out, streamed{Id: m.Id, Type: m.Type, Data: m.Data})
		if strings.Contains(m.Data, sentinel) {
			return out, true
		}
	}
}

func clusterExecute(c *clCase, base string, k int) (fail *vh.Failure, labels []string, nontrivial bool) {
	bin := os.Getenv("VERIF_ROBUSTIRC_BIN")
	if bin == "" {
		return vh.Failf("harness", "no robustirc binary"), nil, false
	}
	dir := filepath.Join(base, fmt.Sprintf("cluster%d", k))
	os.MkdirAll(dir, 0755)
	defer os.RemoveAll(dir)
	cert, key, err := genCert(dir)
	if err != nil {
		return vh.Failf("harness", "cert: %v", err), nil, false
	}
	pemBytes, _ := os.ReadFile(cert)
	pool := x509.NewCertPool()
	pool.AppendCertsFromPEM(pemBytes)
	shard := vh.EnvInt("VERIF_SHARD", 0)
	if shard < 0 {
		shard = 17
	}
	basePort := 23000 + (shard%40)*20 + (os.Getpid()%5)*4
	cl := &cluster{dir: dir, bin: bin, cert: cert, key: key,
		client: &http.Client{Transport: &http.Transport{TLSClientConfig: &tls.Config{RootCAs: pool}, MaxIdleConnsPerHost: 4, DisableKeepAlives: true}}}
	for i := 0; i < 3; i++ {
		nd := filepath.Join(dir, fmt.Sprintf("n%d", i+1))
		os.MkdirAll(nd, 0755)
		cl.nodes = append(cl.nodes, &clNode{idx: i, addr: fmt.Sprintf("localhost:%d", basePort+i+1), dir: nd})
	}
	defer cl.stopAll()
	inconclusive := func(why string) (*vh.Failure, []string, bool) {
		return vh.Failf("harness", "network not usable (%s): inconclusive", why), []string{"c05:cluster-inconclusive"}, false
	}
	if err := cl.start(cl.nodes[0], "single"); err != nil {
		return inconclusive("start node 1: " + err.Error())
	}
	if !cl.healthy(30 * time.Second) {
		return inconclusive("node 1 did not become leader")
	}
	for _, n := range cl.nodes[1:] {
		if err := cl.start(n, "join"); err != nil {
			return inconclusive("start: " + err.Error())
		}
		time.Sleep(500 * time.Millisecond)
	}
	if !cl.healthy(40 * time.Second) {
		return inconclusive("three-node network did not become healthy")
	}
	// PostMessageCooloff=0
	okCfg := false
	for try := 0; try < 20 && !okCfg; try++ {
		code, _, hdr := cl.private(cl.nodes[0], "GET", "/config", nil, nil, 3*time.Second)
		if code == 200 {
			code2, _, _ := cl.private(cl.nodes[0], "POST", "/config", []byte(zeroCooloffConfig), map[string]string{"X-RobustIRC-Config-Revision": hdr.Get("X-RobustIRC-Config-Revision")}, 5*time.Second)
			okCfg = code2 == 200
		}
		if !okCfg {
			time.Sleep(300 * time.Millisecond)
		}
	}
	if !okCfg {
		return inconclusive("could not install the configuration")
	}
	lab := map[string]bool{}
	setupDeadline := time.Now().Add(40 * time.Second)
	cmid := uint64(500)
	var cmu sync.Mutex
	next := func() uint64 { cmu.Lock(); defer cmu.Unlock(); cmid++; return cmid }
	mk := func(nick string) *clClient {
		c2, ok := cl.createSession(setupDeadline)
		if !ok {
			return nil
		}
		c2.name = nick
		for _, l := range []string{"NICK " + nick, "USER " + nick + " 0 * :r", "JOIN #c"} {
			if !cl.send(c2, l, next(), setupDeadline) {
				return nil
			}
		}
		return c2
	}
	observer := mk("observer")
	if observer == nil {
		return inconclusive("observer could not register")
	}
	var senders []*clClient
	for s := 0; s < 3; s++ {
		c2 := mk(fmt.Sprintf("s%d", s))
		if c2 == nil {
			return inconclusive("sender could not register")
		}
		senders = append(senders, c2)
	}
	runDeadline := time.Now().Add(90 * time.Second)
	var wg sync.WaitGroup
	for _, s := range senders {
		wg.Add(1)
		s := s
		go func() {
			defer wg.Done()
			for seq := 0; seq < c.Messages && time.Now().Before(runDeadline) && !s.gone; seq++ {
				text := fmt.Sprintf("%s-%d", s.name, seq)
				if cl.send(s, "PRIVMSG #c :"+text, next(), runDeadline) {
					s.acked = append(s.acked, text)
				} else {
					s.unacked = append(s.unacked, text)
				}
				time.Sleep(20 * time.Millisecond)
			}
		}()
	}
	// faults
	for _, ft := range c.Faults {
		time.Sleep(time.Duration(ft.AfterMs) * time.Millisecond)
		n := cl.nodes[ft.Node%3]
		switch ft.Kind {
		case "kill":
			if n.alive {
				if cl.leaderOf(n) == n.addr {
					lab["c05:killed-the-leader"] = true
					nontrivial = true
				}
				cl.kill(n)
				lab["c05:kill"] = true
			}
		case "restart":
			if !n.alive {
				cl.start(n, "plain")
				lab["c05:restart-node"] = true
			}
		case "pause":
			if n.alive && n.cmd != nil {
				n.cmd.Process.Signal(syscall.SIGSTOP)
				time.Sleep(time.Duration(ft.ForMs) * time.Millisecond)
				n.cmd.Process.Signal(syscall.SIGCONT)
				lab["c05:pause"] = true
			}
		case "snapshot":
			if n.alive {
				cl.private(n, "GET", "/snapshot", nil, nil, 10*time.Second)
				lab["c05:forced-snapshot"] = true
			}
		case "killall":
			for _, x := range cl.nodes {
				cl.kill(x)
			}
			time.Sleep(300 * time.Millisecond)
			for _, x := range cl.nodes {
				cl.start(x, "plain")
			}
			lab["c05:kill-all"] = true
			nontrivial = true
		case "wait":
		}
	}
	// healing
	for _, n := range cl.nodes {
		if !n.alive {
			cl.start(n, "plain")
		}
	}
	wg.Wait()
	if !cl.healthy(60 * time.Second) {
		return inconclusive("network did not become healthy after the faults")
	}
	sentinel := fmt.Sprintf("sentinel-%d", next())
	sent := false
	for _, s := range senders {
		if !s.gone && cl.send(s, "PRIVMSG #c :"+sentinel, next(), time.Now().Add(40*time.Second)) {
			sent = true
			break
		}
	}
	if !sent {
		return inconclusive("sentinel could not be posted")
	}
	var streams [][]streamed
	for _, n := range cl.nodes {
		var got []streamed
		ok := false
		end := time.Now().Add(45 * time.Second)
		attempts, refused := 0, 0
		for time.Now().Before(end) && !ok {
			got, ok = cl.readStream(n, observer, sentinel, 15*time.Second)
			attempts++
			if cl.lastStatus == 404 || cl.lastStatus == 500 {
				refused++
			}
			if !ok {
				time.Sleep(500 * time.Millisecond)
			}
		}
		if !ok && refused >= 20 && refused == attempts {
			// every attempt during 45 s was answered, and refused, by a node of a healthy network that
			// acknowledged the sentinel: the observer's session does not exist or cannot be read there
			return vh.Failf("node-does-not-serve-session", "node %d of the healthy network answered HTTP %d to each of %d reads of the observer's stream (session %s, created and acknowledged before the faults %+v)", n.idx+1, cl.lastStatus, attempts, observer.id, c.Faults), keys2(lab), true
		}
		if !ok {
			return inconclusive(fmt.Sprintf("node %d did not serve the observer's stream up to the sentinel", n.idx+1))
		}
		streams = append(streams, got)
	}
	for ni, msgs := range streams {
		count := map[string]int{}
		order := map[string][]string{}
		for _, m := range msgs {
			k := strings.Index(m.Data, " PRIVMSG #c ")
			if k < 0 {
				continue
			}
			text := strings.TrimPrefix(m.Data[k+len(" PRIVMSG #c "):], ":")
			count[text]++
			who := strings.SplitN(text, "-", 2)[0]
			order[who] = append(order[who], text)
		}
		for _, s := range senders {
			for _, t := range s.acked {
				if count[t] != 1 {
					return vh.Failf("acknowledged-message-not-exactly-once", "node %d delivers acknowledged message %q %d times after the faults %+v", ni+1, t, count[t], c.Faults), keys2(lab), true
				}
			}
			for _, t := range s.unacked {
				if count[t] > 1 {
					return vh.Failf("unacknowledged-message-duplicated", "node %d delivers the never-acknowledged message %q %d times", ni+1, t, count[t]), keys2(lab), true
				}
			}
			pos := 0
			seq := order[s.name]
			for _, t := range s.acked {
				for pos < len(seq) && seq[pos] != t {
					pos++
				}
				if pos == len(seq) {
					return vh.Failf("order-changed", "node %d delivers the messages of %s in the order %v, posted in the order %v", ni+1, s.name, seq, s.acked), keys2(lab), true
				}
			}
		}
		if ni > 0 {
			a, b := streams[0], msgs
			if len(a) != len(b) {
				return vh.Failf("nodes-deliver-different-streams", "node 1 delivers %d messages to the observer, node %d delivers %d", len(a), ni+1, len(b)), keys2(lab), true
			}
			for k := range a {
				if a[k].Id != b[k].Id || mask003(a[k].Data) != mask003(b[k].Data) {
					return vh.Failf("nodes-deliver-different-streams", "message #%d of the observer's stream: node 1 %v %q, node %d %v %q", k, a[k].Id, a[k].Data, ni+1, b[k].Id, b[k].Data), keys2(lab), true
				}
			}
		}
	}
	return nil, keys2(lab), nontrivial
}

func TestVerifC05Cluster(t *testing.T) {
	rec := vh.New("C05", "TestVerifC05Cluster")
	defer rec.Flush()
	base, err := os.MkdirTemp("", "c05c-")
	if err != nil {
		t.Fatal(err)
	}
	defer os.RemoveAll(base)
	if vh.Replaying() {
		for _, ff := range vh.ReplayFiles("C05", "TestVerifC05Cluster") {
			var c clCase
			if err := json.Unmarshal(ff.Case, &c); err != nil {
				t.Fatalf("bad replay case: %v", err)
			}
			if f, _, _ := clusterExecute(&c, base, 0); f != nil && f.Signature != "harness" && !rec.Known(f.Signature) {
				rec.WriteFail(f, &c)
				t.Fatalf("%v", f)
			}
		}
		return
	}
	k := 0
	rapid.Check(t, func(rt *rapid.T) {
		k++
		c := &clCase{Messages: rapid.IntRange(10, 40).Draw(rt, "messages")}
		nf := rapid.IntRange(1, 5).Draw(rt, "nfaults")
		if rapid.IntRange(0, 2).Draw(rt, "twocrashes") == 0 {
			// one node: snapshot, more traffic, crash, restart, its next snapshot, crash, restart
			// (what a node goes through over a week: the second start restores a snapshot that was
			// taken by a process which itself had started from a snapshot)
			x := rapid.IntRange(0, 2).Draw(rt, "crashnode")
			gap := rapid.IntRange(200, 900).Draw(rt, "crashgap")
			c.Faults = []clFault{{Kind: "snapshot", Node: x, AfterMs: gap}, {Kind: "kill", Node: x, AfterMs: gap}, {Kind: "restart", Node: x, AfterMs: 300},
				{Kind: "snapshot", Node: x, AfterMs: gap + 1500}, {Kind: "kill", Node: x, AfterMs: gap}, {Kind: "restart", Node: x, AfterMs: 300}, {Kind: "wait", AfterMs: 1500}}
			if c.Messages < 30 {
				c.Messages = 30
			}
			nf = 0
		}
		for i := 0; i < nf; i++ {
			f := clFault{Kind: rapid.SampledFrom([]string{"kill", "kill", "restart", "pause", "snapshot", "killall", "wait"}).Draw(rt, "fault"),
				Node: rapid.IntRange(0, 2).Draw(rt, "node"), AfterMs: rapid.IntRange(0, 1500).Draw(rt, "afterms")}
			if f.Kind == "pause" {
				f.ForMs = rapid.IntRange(200, 4000).Draw(rt, "forms")
			}
			c.Faults = append(c.Faults, f)
		}
		f, labels, nt := clusterExecute(c, base, k)
		if f != nil && f.Signature == "harness" {
			rec.Label("c05:cluster-inconclusive")
			t.Logf("inconclusive: %s", f.Message)
			return
		}
		rec.Case(vh.Fingerprint(c), nt, labels, func() interface{} { return c })
		if f != nil {
			if rec.Known(f.Signature) {
				return
			}
			rec.WriteFail(f, c)
			rt.Fatalf("%v", f)
		}
	})
}
