package main

// C02: any schedule of Apply / Snapshot+Persist / failed Persist / Restore /
// restart leaves the node in the state of a node that replayed the log without
// ever snapshotting; outputs and log copy are kept exactly for what has not
// been folded into a snapshot.

import (
	"encoding/json"
	"errors"
	"fmt"
	"os"
	"sort"
	"strings"
	"testing"
	"time"

	"github.com/hashicorp/raft"
	"github.com/robustirc/rafthttp"
	"pgregory.net/rapid"
	"verif.local/verif/ircgen"
	"verif.local/verif/vh"
)

type c02Action struct {
	Kind string `json:"action"` // apply | snapshot | restore | restart
	N    int    `json:"n,omitempty"`
	// snapshot: the horizon (compaction time minus expiration minus 10s) as absolute unix nanoseconds
	Horizon      int64 `json:"horizon_unix_nano,omitempty"`
	Fail         bool  `json:"persist_fails,omitempty"`
	FailAfter    int   `json:"persist_fails_after_bytes,omitempty"`
	ApplyBetween int   `json:"applies_between_snapshot_and_persist,omitempty"`
	// restart: how many of the previously applied entries raft has re-applied when the
	// next action happens (-1: all of them); the rest follows with later apply actions
	ReplayTo int `json:"replayed_before_next_action"`
}

type c02Case struct {
	JSON    bool           `json:"legacy_json_encoding"`
	Entries []ircgen.Entry `json:"entries"`
	Actions []c02Action    `json:"actions"`
}

type failingSink struct {
	raft.SnapshotSink
	budget int
}

func (f *failingSink) Write(p []byte) (int, error) {
	if f.budget < len(p) {
		n := f.budget
		if n > 0 {
			f.SnapshotSink.Write(p[:n])
		}
		f.budget = 0
		return n, errors.New("injected snapshot write failure")
	}
	f.budget -= len(p)
	return f.SnapshotSink.Write(p)
}

type c02Snap struct {
	index  uint64   // raft index of the snapshot
	stored []uint64 // model: inputs retained in it
}

type c02Run struct {
	c       *c02Case
	ref     *reference
	env     *fsmEnv
	logs    []*raft.Log
	applied int
	stored  []uint64 // model of the node's log copy (indexes, ascending)
	snaps   []c02Snap
	lastT   int64
	// staleMax: the on-disk log copy of a restarted process still holds entries up to this
	// index from the previous run (they are overwritten as raft re-applies them)
	stale  map[uint64]bool
	labels map[string]bool
	rec    *vh.Recorder
	// next action source
	rt  *rapid.T
	pos int
}

func (r *c02Run) applyOne() {
	l := r.logs[r.applied]
	r.env.fsm.Apply(l)
	r.stored = append(r.stored, l.Index)
	delete(r.stale, l.Index)
	r.applied++
}

func (r *c02Run) expInForce() time.Duration {
	exp := r.ref.expSec[r.applied]
	if exp == 0 {
		exp = 10 * time.Minute
	}
	return exp + 10*time.Second
}

func (r *c02Run) fold(horizon int64) int {
	n := 0
	for len(r.stored) > 0 && r.ref.ts[r.stored[0]] <= horizon {
		r.stored = r.stored[1:]
		n++
	}
	return n
}

func (r *c02Run) compare(what string) *vh.Failure {
	// (1) replicated state
	if diff := vh.DiffDumps(r.ref.dumps[r.applied], vh.DumpServer(ircServer), 1000); len(diff) > 0 {
		var unknown []string
		for _, d := range diff {
			if !r.rec.Known("state-differs:" + vh.GenericPath(strings.SplitN(d, ": ", 2)[0])) {
				unknown = append(unknown, d)
			}
		}
		if len(unknown) > 0 {
			n := len(unknown)
			if n > 6 {
				unknown = append(unknown[:6], fmt.Sprintf("... and %d more", n-6))
			}
			return vh.Failf("state-differs:"+vh.GenericPath(strings.SplitN(unknown[0], ": ", 2)[0]), "%s: state of a node that replayed %d entries (left) vs this node (right): %s", what, r.applied, strings.Join(unknown, "; "))
		}
	}
	inModel := map[uint64]bool{}
	for _, idx := range r.stored {
		inModel[idx] = true
	}
	for k := 0; k < r.applied; k++ {
		idx := r.logs[k].Index
		got, ok := outputOf(outputStream, idx)
		var l raft.Log
		err := r.env.fsm.ircstore.GetLog(idx, &l)
		if inModel[idx] {
			// (2) retained: identical output, entry still in the log copy
			if ok != r.ref.hasOut[idx] || got != r.ref.outs[idx] {
				return vh.Failf("retained-output-differs", "%s: output for input %d (not folded into any snapshot): got %q (present=%v), a node without snapshots serves %q (present=%v)", what, idx, got, ok, r.ref.outs[idx], r.ref.hasOut[idx])
			}
			if err != nil {
				return vh.Failf("retained-entry-missing", "%s: input %d has not been folded into any snapshot but is gone from the node's log copy: %v", what, idx, err)
			}
			if l.Index != idx || !sameLogPayload(l.Data, r.logs[k].Data, idx) {
				return vh.Failf("retained-entry-differs", "%s: input %d in the log copy differs from the committed entry", what, idx)
			}
		} else {
			// (3) folded: nothing folded is retained
			if ok {
				return vh.Failf("folded-output-retained", "%s: input %d has been folded into a snapshot but its output is still stored: %q", what, idx, got)
			}
			if err == nil {
				return vh.Failf("folded-entry-retained", "%s: input %d has been folded into a snapshot but is still in the node's log copy", what, idx)
			}
		}
	}
	// (4) first / last index
	first, _ := r.env.fsm.ircstore.FirstIndex()
	last, _ := r.env.fsm.ircstore.LastIndex()
	var wf, wl uint64
	if len(r.stored) > 0 {
		wf, wl = r.stored[0], r.stored[len(r.stored)-1]
	}
	// entries of the previous run that raft has not re-applied yet are still on disk
	for k := r.applied; k < len(r.logs); k++ {
		if idx := r.logs[k].Index; r.stale[idx] {
			if wf == 0 {
				wf = idx
			}
			wl = idx
		}
	}
	if first != wf || last != wl {
		return vh.Failf("first-last-index-differ", "%s: log copy spans [%d,%d], expected [%d,%d]", what, first, last, wf, wl)
	}
	return nil
}

func sameLogPayload(a, b []byte, idx uint64) bool {
	if string(a) == string(b) {
		return true
	}
	defer func() { recover() }()
	// a JSON snapshot restore re-encodes entries; compare as messages
	ma, _ := json.Marshal(decodeAny(a, idx))
	mb, _ := json.Marshal(decodeAny(b, idx))
	return string(ma) == string(mb)
}

func (r *c02Run) restoreLatest(what string, upTo int) *vh.Failure {
	snaps, err := r.env.fss.List()
	if err != nil || len(snaps) == 0 {
		return vh.Failf("harness", "no snapshot to restore: %v", err)
	}
	_, rc, err := r.env.fss.Open(snaps[0].ID)
	if err != nil {
		return vh.Failf("harness", "open snapshot: %v", err)
	}
	if err := r.env.fsm.Restore(rc); err != nil {
		return vh.Failf("restore-error", "%s: Restore of the newest snapshot (index %d) failed: %v", what, snaps[0].Index, err)
	}
	var sn *c02Snap
	for k := range r.snaps {
		if r.snaps[k].index == snaps[0].Index {
			sn = &r.snaps[k]
		}
	}
	if sn == nil {
		return vh.Failf("harness", "snapshot %d unknown to the model", snaps[0].Index)
	}
	r.stored = append([]uint64(nil), sn.stored...)
	r.stale = nil // Restore recreates the log copy
	// raft replays the log entries after the snapshot
	pos := 0
	for k := range r.logs {
		if r.logs[k].Index <= sn.index {
			pos = k + 1
		}
	}
	if upTo < pos {
		upTo = pos
	}
	for k := pos; k < upTo; k++ {
		r.env.fsm.Apply(r.logs[k])
		r.stored = append(r.stored, r.logs[k].Index)
	}
	r.applied = upTo
	return nil
}

func (r *c02Run) step(a c02Action) *vh.Failure {
	switch a.Kind {
	case "apply":
		for k := 0; k < a.N && r.applied < len(r.logs); k++ {
			r.applyOne()
		}
		return r.compare("after apply")
	case "snapshot":
		if r.applied == 0 {
			return nil
		}
		T := a.Horizon + int64(r.expInForce())
		if T <= r.lastT {
			T = r.lastT // compaction times never go backwards
		}
		if T <= 0 {
			return nil
		}
		r.lastT = T
		*canaryCompactionStart = T
		horizon := T - int64(r.expInForce())
		snapIndex := r.logs[r.applied-1].Index
		wasStored := len(r.stored)
		snap, err := r.env.fsm.Snapshot()
		if err != nil {
			if len(r.stored) == 0 {
				return nil // nothing (re-)applied and stored: Snapshot() legitimately refuses
			}
			return vh.Failf("snapshot-error", "Snapshot() with %d stored entries failed: %v", len(r.stored), err)
		}
		folded := r.fold(horizon)
		if folded > 0 {
			r.labels["c02:snapshot-folded-entries"] = true
		}
		if folded == wasStored && wasStored > 0 {
			r.labels["c02:snapshot-folded-everything"] = true
		}
		storedAtSnapshot := append([]uint64(nil), r.stored...)
		for k := 0; k < a.ApplyBetween && r.applied < len(r.logs); k++ {
			r.applyOne() // raft persists in the background while the FSM keeps applying
			r.labels["c02:apply-between-snapshot-and-persist"] = true
		}
		sink, err := r.env.fss.Create(1, snapIndex, 1, raft.Configuration{}, 0, &rafthttp.HTTPTransport{})
		if err != nil {
			return vh.Failf("harness", "fss.Create: %v", err)
		}
		if a.Fail {
			fs := &failingSink{SnapshotSink: sink, budget: a.FailAfter}
			if err := snap.Persist(fs); err == nil {
				// small snapshot: the budget was not exhausted; treat as cancelled anyway
			}
			sink.Cancel()
			r.labels["c02:failed-persist"] = true
		} else {
			if err := snap.Persist(sink); err != nil {
				sink.Cancel()
				return vh.Failf("persist-error", "Persist failed: %v", err)
			}
			if err := sink.Close(); err != nil {
				return vh.Failf("harness", "sink.Close: %v", err)
			}
			// one snapshot per index
			kept := r.snaps[:0]
			for _, s := range r.snaps {
				if s.index != snapIndex {
					kept = append(kept, s)
				}
			}
			r.snaps = append(kept, c02Snap{index: snapIndex, stored: storedAtSnapshot})
			time.Sleep(2 * time.Millisecond) // snapshot ids carry a millisecond timestamp
		}
		snap.Release()
		return r.compare(fmt.Sprintf("after snapshot (horizon %d, folded %d, persist failed=%v)", horizon, folded, a.Fail))
	case "restore":
		if len(r.snaps) == 0 {
			return nil
		}
		r.labels["c02:restore"] = true
		if f := r.restoreLatest("restore", r.applied); f != nil {
			return f
		}
		return r.compare("after restore of the newest snapshot")
	case "restart":
		r.labels["c02:restart"] = true
		target := r.applied
		if a.ReplayTo >= 0 && a.ReplayTo < target {
			target = a.ReplayTo
			r.labels["c02:restart-with-partial-replay"] = true
		}
		r.env.freshFSM()
		if len(r.snaps) > 0 {
			if f := r.restoreLatest("restart", target); f != nil {
				return f
			}
		} else {
			// no snapshot: raft replays the log from the start; the log copy on disk is the previous run's
			if r.stale == nil {
				r.stale = map[uint64]bool{}
			}
			for _, idx := range r.stored {
				r.stale[idx] = true
			}
			r.stored = nil
			for k := 0; k < target; k++ {
				r.env.fsm.Apply(r.logs[k])
				r.stored = append(r.stored, r.logs[k].Index)
				delete(r.stale, r.logs[k].Index)
			}
			r.applied = target
		}
		return r.compare("after restart")
	}
	return vh.Failf("harness", "unknown action %q", a.Kind)
}

// nextAction draws the next action (generation) or reads it (replay).
func (r *c02Run) nextAction() (c02Action, bool) {
	if r.rt == nil {
		if r.pos >= len(r.c.Actions) {
			return c02Action{}, false
		}
		r.pos++
		return r.c.Actions[r.pos-1], true
	}
	rt := r.rt
	var a c02Action
	w := []int{5, 4, 2, 2}
	if r.applied == len(r.logs) {
		w[0] = 0
	}
	if r.applied == 0 {
		w[1] = 0
	}
	if len(r.snaps) == 0 {
		w[2] = 0
	}
	total := 0
	for _, x := range w {
		total += x
	}
	if total == 0 {
		return a, false
	}
	pick := rapid.IntRange(0, total-1).Draw(rt, "action")
	kind := 0
	for k, x := range w {
		if pick < x {
			kind = k
			break
		}
		pick -= x
	}
	switch kind {
	case 0:
		a = c02Action{Kind: "apply", N: rapid.IntRange(1, 6).Draw(rt, "applyn")}
	case 1:
		a = c02Action{Kind: "snapshot"}
		// where the horizon falls: before everything, at/around an applied entry, after everything
		switch rapid.IntRange(0, 7).Draw(rt, "horizonkind") {
		case 0:
			a.Horizon = r.ref.ts[r.logs[0].Index] - int64(time.Second)
		case 1, 2:
			a.Horizon = r.ref.ts[r.logs[r.applied-1].Index] + int64(rapid.IntRange(0, 2).Draw(rt, "after"))*int64(time.Second)
		default:
			j := rapid.IntRange(0, r.applied-1).Draw(rt, "horizonentry")
			a.Horizon = r.ref.ts[r.logs[j].Index] + int64(rapid.IntRange(-1, 1).Draw(rt, "delta"))
		}
		if rapid.IntRange(0, 4).Draw(rt, "persistfails") == 0 {
			a.Fail = true
			a.FailAfter = rapid.IntRange(0, 3000).Draw(rt, "failafter")
		}
		if rapid.IntRange(0, 4).Draw(rt, "between") == 0 {
			a.ApplyBetween = rapid.IntRange(1, 3).Draw(rt, "applybetween")
		}
	case 2:
		a = c02Action{Kind: "restore"}
	default:
		a = c02Action{Kind: "restart", ReplayTo: -1}
		if r.applied > 0 && rapid.IntRange(0, 2).Draw(rt, "partialreplay") == 0 {
			a.ReplayTo = rapid.IntRange(0, r.applied).Draw(rt, "replayto")
		}
	}
	r.c.Actions = append(r.c.Actions, a)
	return a, true
}

var c02EnvCounter int

func c02Execute(c *c02Case, rt *rapid.T, base string, rec *vh.Recorder) (fail *vh.Failure, labels []string, nontrivial bool) {
	c02EnvCounter++
	tmp := fmt.Sprintf("%s/ref%d", base, c02EnvCounter)
	os.MkdirAll(tmp, 0755)
	defer os.RemoveAll(tmp)
	var ref *reference
	if rt != nil {
		// the generator's profiles: more privileged state (bans, invitations, modes) or more membership
		// changes in a third of the histories each
		bias := rapid.SampledFrom([]string{"", "privilege", "membership"}).Draw(rt, "profile")
		c.Entries, ref = genHistory(rt, tmp, ircgen.Options{WithMoD: true, NoBigJumps: false, Bias: bias, BackwardsTime: rapid.Bool().Draw(rt, "backwardstime")}, 4, 60)
	} else {
		ref = replayHistory(c.Entries, tmp)
	}
	defer ref.close()
	if len(c.Entries) == 0 {
		return nil, nil, false
	}
	env := newFsmEnv(base, c02EnvCounter, !c.JSON)
	defer env.close()
	r := &c02Run{c: c, ref: ref, env: env, labels: map[string]bool{}, rt: rt, rec: rec}
	for _, e := range c.Entries {
		r.logs = append(r.logs, toLog(e, !c.JSON))
	}
	maxActions := 30
	if rt != nil {
		maxActions = rapid.IntRange(3, 30).Draw(rt, "nactions")
	}
	foldedThenRestored := false
	for k := 0; k < maxActions; k++ {
		a, ok := r.nextAction()
		if !ok {
			break
		}
		f := r.step(a)
		if os.Getenv("VERIF_DEBUG") != "" {
			first, _ := r.env.fsm.ircstore.FirstIndex()
			last, _ := r.env.fsm.ircstore.LastIndex()
			fmt.Fprintf(os.Stderr, "DEBUG %+v -> applied=%d stored=%v stale=%v physical=[%d,%d] snaps=%+v\n", a, r.applied, r.stored, r.stale, first, last, r.snaps)
		}
		if f != nil {
			if f.Signature == "harness" {
				return f, keys2(r.labels), false
			}
			return f, keys2(r.labels), true
		}
		if (a.Kind == "restore" || a.Kind == "restart") && r.labels["c02:snapshot-folded-entries"] {
			foldedThenRestored = true
		}
	}
	if c.JSON {
		r.labels["c02:legacy-json"] = true
	}
	for _, e := range c.Entries {
		if e.Kind == "config" {
			r.labels["c02:log-with-config-entry"] = true
		}
	}
	return nil, keys2(r.labels), foldedThenRestored
}

func keys2(m map[string]bool) []string {
	var l []string
	for k := range m {
		l = append(l, k)
	}
	sort.Strings(l)
	return l
}

func TestVerifC02(t *testing.T) {
	quiet()
	rec := vh.New("C02", "TestVerifC02")
	defer rec.Flush()
	base, err := os.MkdirTemp("", "c02-")
	if err != nil {
		t.Fatal(err)
	}
	defer os.RemoveAll(base)
	if vh.Replaying() {
		for _, ff := range vh.ReplayFiles("C02", "TestVerifC02") {
			var c c02Case
			if err := json.Unmarshal(ff.Case, &c); err != nil {
				t.Fatalf("bad replay case: %v", err)
			}
			if f, _, _ := c02Execute(&c, nil, base, rec); f != nil && f.Signature != "harness" && !rec.Known(f.Signature) {
				rec.WriteFail(f, &c)
				t.Fatalf("%v", f)
			}
		}
		return
	}
	rapid.Check(t, func(rt *rapid.T) {
		c := &c02Case{JSON: rapid.IntRange(0, 7).Draw(rt, "json") == 0}
		f, labels, nt := c02Execute(c, rt, base, rec)
		rec.Case(vh.Fingerprint(c), nt, labels, func() interface{} { return c })
		if f != nil {
			if f.Signature == "harness" {
				rt.Skip(f.Message)
			}
			if rec.Known(f.Signature) {
				return
			}
			rec.WriteFail(f, c)
			rt.Fatalf("%v", f)
		}
	})
}
