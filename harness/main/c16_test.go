package main

// C16: only valid, current-revision configuration updates take effect, every
// replica ends up with the same configuration, GLINE bans are part of it.

import (
	"encoding/json"
	"fmt"
	"os"
	"reflect"
	"strconv"
	"strings"
	"testing"
	"time"

	"github.com/BurntSushi/toml"
	"github.com/robustirc/robustirc/internal/config"
	"github.com/robustirc/robustirc/internal/robust"
	"pgregory.net/rapid"
	"verif.local/verif/ircgen"
	"verif.local/verif/vh"
)

type c16Action struct {
	Kind string `json:"action"` // config | badtoml | fsmconfig | oper | gline | line | snapshot | restart
	TOML string `json:"toml,omitempty"`
	// revision header: "current", "stale", "future", "garbage", "missing"
	Rev     string `json:"revision,omitempty"`
	Sess    int    `json:"session,omitempty"`
	FoldAll bool   `json:"fold_everything,omitempty"`
	GoodPw  bool   `json:"good_password,omitempty"`
}

type c16Case struct {
	Actions []c16Action `json:"actions"`
}

func normCfg(c config.Network) config.Network {
	if len(c.Banned) == 0 {
		c.Banned = nil
	}
	if len(c.TrustedBridges) == 0 {
		c.TrustedBridges = nil
	}
	if len(c.WhitelistedOrigins) == 0 {
		c.WhitelistedOrigins = nil
	}
	if len(c.IRC.Operators) == 0 {
		c.IRC.Operators = nil
	}
	if len(c.IRC.Services) == 0 {
		c.IRC.Services = nil
	}
	if len(c.CaptchaHMACSecret) == 0 {
		c.CaptchaHMACSecret = nil
	}
	return c
}

func cfgDiff(a, b config.Network) string {
	a, b = normCfg(a), normCfg(b)
	if reflect.DeepEqual(a, b) {
		return ""
	}
	da, db := vh.DumpState(a), vh.DumpState(b)
	return strings.Join(vh.DiffDumps(da, db, 4), "; ")
}

var c16Counter int

func c16Execute(c *c16Case, rt *rapid.T, base string, rec *vh.Recorder) (fail *vh.Failure, labels []string, nontrivial bool) {
	c16Counter++
	dir := newNodeDir(base, c16Counter)
	defer os.RemoveAll(dir)
	n, err := startNode(dir, true)
	if err != nil {
		return vh.Failf("harness", "start: %v", err), nil, false
	}
	defer func() { n.stop() }()
	lab := map[string]bool{}
	// the model
	expected := config.DefaultConfig
	expected.Banned = map[string]string{}
	rev := uint64(0)
	var sessions []sessionCred
	cmid := uint64(10)
	post := func(s sessionCred, line string) int {
		cmid++
		return n.post(s, line, cmid)
	}
	lastAccepted := ""
	accepted, rejectedStale, invalid, restoredAfterAccept := 0, 0, 0, false
	origins := false
	check := func(what string) *vh.Failure {
		// GET /config
		r := n.private("GET", "/config", nil, "robustirc", nodePassword, nil)
		if r.Code != 200 {
			return vh.Failf("getconfig-failed", "%s: GET /config = %d %s", what, r.Code, r.Body.String())
		}
		if got := r.Header().Get("X-RobustIRC-Config-Revision"); got != strconv.FormatUint(rev, 10) {
			return vh.Failf("revision-wrong", "%s: GET /config reports revision %s, %d updates were accepted", what, got, rev)
		}
		served, err := config.FromString(r.Body.String())
		if err != nil {
			return vh.Failf("getconfig-unparsable", "%s: GET /config body does not parse: %v", what, err)
		}
		live := ircServer.Config
		live.Revision = 0
		if d := cfgDiff(expected, live); d != "" {
			sig := "config-in-force-differs"
			if origins && strings.HasPrefix(d, ".WhitelistedOrigins") && !strings.Contains(d, ";") {
				sig = "config-in-force-differs:WhitelistedOrigins"
			}
			if !rec.Known(sig) {
				return vh.Failf(sig, "%s: configuration in force on the node differs from the last accepted update (+ GLINE bans): expected vs node: %s", what, d)
			}
		}
		if d := cfgDiff(live, served); d != "" {
			return vh.Failf("getconfig-differs-from-config-in-force", "%s: GET /config serves something else than the configuration in force: node vs served: %s", what, d)
		}
		// a replica that replays the durable log
		tmp := fmt.Sprintf("%s/replica", dir)
		os.MkdirAll(tmp, 0755)
		ref, err := replayReplica(n, tmp)
		if err != nil {
			return vh.Failf("harness", "replay: %v", err)
		}
		defer ref.close()
		if d := cfgDiff(ref.srv.Config, ircServer.Config); d != "" {
			sig := "replicas-disagree-on-config"
			if origins && strings.HasPrefix(d, ".WhitelistedOrigins") && !strings.Contains(d, ";") {
				sig = "replicas-disagree-on-config:WhitelistedOrigins"
			}
			if !rec.Known(sig) {
				return vh.Failf(sig, "%s: replica that replayed the log vs this node: %s", what, d)
			}
		}
		return nil
	}
	step := func(a c16Action) *vh.Failure {
		switch a.Kind {
		case "config", "badtoml":
			if a.TOML == "<the text in force>" {
				// the administrator posts the text that was accepted last once more (the only way to
				// lift a GLINE ban is to post a configuration that does not list it)
				if lastAccepted == "" {
					return nil
				}
				a.TOML = lastAccepted
				lab["c16:same-text-posted-again"] = true
			}
			hdr := map[string]string{}
			revOK := false
			switch a.Rev {
			case "current":
				hdr["X-RobustIRC-Config-Revision"] = strconv.FormatUint(rev, 10)
				revOK = true
			case "stale":
				if rev == 0 {
					hdr["X-RobustIRC-Config-Revision"] = "18446744073709551615"
				} else {
					hdr["X-RobustIRC-Config-Revision"] = strconv.FormatUint(rev-1, 10)
				}
			case "future":
				hdr["X-RobustIRC-Config-Revision"] = strconv.FormatUint(rev+1, 10)
			case "garbage":
				hdr["X-RobustIRC-Config-Revision"] = "latest"
			case "missing":
			}
			// "it parses": decided here with the TOML library itself, not with the parser of the
			// state machine (the handler and the state machine must agree on what parses)
			var parsed config.Network
			_, perr := toml.Decode(a.TOML, &parsed)
			before := node.LastIndex()
			r := n.private("POST", "/config", []byte(a.TOML), "robustirc", nodePassword, hdr)
			shouldAccept := perr == nil && revOK
			if shouldAccept {
				if r.Code != 200 {
					return vh.Failf("valid-update-rejected", "POST /config with a parsable config and the current revision %d answered %d %s", rev, r.Code, r.Body.String())
				}
				rev++
				lastAccepted = a.TOML
				expected = parsed
				// the ban table in force is the one of the posted text, decoded here independently of
				// config.FromString (and never sharing a map with the implementation)
				var tables struct{ Banned map[string]string }
				toml.Decode(a.TOML, &tables)
				expected.Banned = map[string]string{}
				for k, v := range tables.Banned {
					expected.Banned[k] = v
				}
				origins = len(expected.WhitelistedOrigins) > 0
				accepted++
				restoredAfterAccept = false
			} else {
				if r.Code < 400 {
					return vh.Failf("invalid-update-accepted", "POST /config (parses: %v, revision header %q while revision %d is in force) answered %d", perr == nil, hdr["X-RobustIRC-Config-Revision"], rev, r.Code)
				}
				if after := node.LastIndex(); after != before {
					return vh.Failf("rejected-update-reached-the-log", "a rejected POST /config advanced raft's last index from %d to %d", before, after)
				}
				if perr != nil {
					invalid++
				} else {
					rejectedStale++
				}
			}
		case "fsmconfig":
			// a Config entry with unparsable data in the log must leave the configuration untouched
			m := &robust.Message{Type: robust.Config, Data: a.TOML, Revision: rev + 7}
			if err := n.h.ApplyMessageWait(m, 5*time.Second); err != nil {
				return vh.Failf("harness", "apply: %v", err)
			}
			lab["c16:unparsable-config-entry-in-log"] = true
		case "oper":
			if len(sessions) == 0 {
				return nil
			}
			s := sessions[a.Sess%len(sessions)]
			if _, err := ircServer.GetSession(robust.Id{Id: s.Num}); err != nil {
				return nil
			}
			pw := "definitely-wrong"
			name := "op"
			if a.GoodPw && len(expected.IRC.Operators) > 0 {
				name, pw = expected.IRC.Operators[0].Name, expected.IRC.Operators[0].Password
			}
			if strings.ContainsAny(pw, " ") || pw == "" {
				return nil
			}
			loggedIn := false
			for _, ws := range worldOf(ircServer).Sessions {
				if robust.IdFromRaftIndex(ws.Id) == s.Num && ws.Reply == 0 && ws.LoggedIn && !ws.Server {
					loggedIn = true
				}
			}
			if !loggedIn {
				return nil // e.g. login needs a captcha under the configuration in force
			}
			sess, _ := ircServer.GetSession(robust.Id{Id: s.Num})
			was := sess.Operator
			if code := post(s, "OPER "+name+" "+pw); code != 200 {
				return nil
			}
			sess, err := ircServer.GetSession(robust.Id{Id: s.Num})
			if err != nil {
				return nil
			}
			want := was || (a.GoodPw && len(expected.IRC.Operators) > 0)
			if sess.Operator != want {
				return vh.Failf("oper-ignores-config-in-force", "OPER %s %s: operator=%v, but the configuration in force (revision %d) has operators %v", name, pw, sess.Operator, rev, expected.IRC.Operators)
			}
			lab["c16:oper-attempt"] = true
		case "gline":
			if len(sessions) < 2 {
				return nil
			}
			var oper *sessionCred
			for k := range sessions {
				if s, err := ircServer.GetSession(robust.Id{Id: sessions[k].Num}); err == nil && s.Operator {
					oper = &sessions[k]
				}
			}
			if oper == nil && len(expected.IRC.Operators) > 0 {
				// nobody is operator yet: the first logged-in session uses the credentials in force
				o0 := expected.IRC.Operators[0]
				if o0.Name != "" && o0.Password != "" && !strings.ContainsAny(o0.Name+o0.Password, " ") {
					for k := range sessions {
						for _, ws := range worldOf(ircServer).Sessions {
							if robust.IdFromRaftIndex(ws.Id) == sessions[k].Num && ws.Reply == 0 && ws.LoggedIn && !ws.Server && oper == nil {
								post(sessions[k], "OPER "+o0.Name+" "+o0.Password)
								if s, err := ircServer.GetSession(robust.Id{Id: sessions[k].Num}); err == nil && s.Operator {
									oper = &sessions[k]
								}
							}
						}
					}
				}
			}
			if oper == nil {
				return nil
			}
			victim := sessions[a.Sess%len(sessions)]
			vs, err := ircServer.GetSession(robust.Id{Id: victim.Num})
			if err != nil || victim.Num == oper.Num || vs.Nick == "" || vs.RemoteAddr == "" {
				return nil
			}
			if code := post(*oper, "GLINE "+vs.Nick+" :spam"); code != 200 {
				return nil
			}
			expected.Banned[vs.RemoteAddr] = "spam"
			lab["c16:gline"] = true
		case "line":
			if len(sessions) >= 4 {
				return nil
			}
			cred, code := n.createSession()
			if code != 200 {
				return nil // e.g. MaxSessions reached
			}
			cred.Addr = fmt.Sprintf("198.51.100.%d:4000", len(sessions)+1)
			sessions = append(sessions, cred)
			post(cred, fmt.Sprintf("NICK u%d", len(sessions)))
			post(cred, "USER u 0 * :r")
			post(cred, "JOIN #c")
		case "snapshot":
			*canaryCompactionStart = 0
			if a.FoldAll {
				*canaryCompactionStart = time.Now().Add(3 * time.Hour).UnixNano()
			}
			if err := n.snapshot(); err != nil && !strings.Contains(err.Error(), "nothing new") && !strings.Contains(err.Error(), "is < 1") && !strings.Contains(err.Error(), "no messages applied") {
				return vh.Failf("snapshot-error", "raft snapshot: %v", err)
			}
			lab["c16:snapshot"] = true
		case "restart":
			nn, err := n.restart()
			if err != nil {
				return vh.Failf("restart-error", "restart: %v", err)
			}
			n = nn
			lab["c16:restart"] = true
			if accepted > 0 {
				restoredAfterAccept = true
			}
		}
		return check("after " + a.Kind)
	}
	if rt != nil {
		na := rapid.IntRange(8, 40).Draw(rt, "nactions")
		for k := 0; k < na; k++ {
			var a c16Action
			switch rapid.IntRange(0, 17).Draw(rt, "kind") {
			case 16:
				a = c16Action{Kind: "config", TOML: "<the text in force>", Rev: "current"}
			case 17:
				a = c16Action{Kind: "gline", Sess: rapid.IntRange(0, 3).Draw(rt, "sess")}
			case 0, 1, 2, 3, 4:
				a = c16Action{Kind: "config", TOML: ircgen.GenConfigOdd(rt).TOML, Rev: rapid.SampledFrom([]string{"current", "current", "current", "stale", "future", "garbage", "missing"}).Draw(rt, "rev")}
			case 5:
				a = c16Action{Kind: "badtoml", TOML: rapid.SampledFrom([]string{"this is not toml = = =", "SessionExpiration = 5", "[IRC\n", "MaxSessions = \"many\""}).Draw(rt, "badtoml"), Rev: rapid.SampledFrom([]string{"current", "stale"}).Draw(rt, "rev")}
			case 6:
				a = c16Action{Kind: "fsmconfig", TOML: "unparsable = = ="}
			case 7, 8:
				a = c16Action{Kind: "oper", Sess: rapid.IntRange(0, 3).Draw(rt, "sess"), GoodPw: rapid.Bool().Draw(rt, "goodpw")}
			case 9:
				a = c16Action{Kind: "gline", Sess: rapid.IntRange(0, 3).Draw(rt, "sess")}
			case 10, 11:
				a = c16Action{Kind: "line"}
			case 12, 13:
				a = c16Action{Kind: "snapshot", FoldAll: rapid.Bool().Draw(rt, "foldall")}
			default:
				a = c16Action{Kind: "restart"}
			}
			c.Actions = append(c.Actions, a)
			if f := step(a); f != nil {
				return f, keys2(lab), true
			}
		}
	} else {
		for _, a := range c.Actions {
			if f := step(a); f != nil {
				return f, keys2(lab), true
			}
		}
	}
	if accepted > 0 {
		lab["c16:accepted-update"] = true
	}
	if rejectedStale > 0 {
		lab["c16:rejected-revision"] = true
	}
	if invalid > 0 {
		lab["c16:invalid-toml"] = true
	}
	return nil, keys2(lab), accepted > 0 && rejectedStale > 0 && invalid > 0 && restoredAfterAccept
}

func TestVerifC16(t *testing.T) {
	quiet()
	rec := vh.New("C16", "TestVerifC16")
	defer rec.Flush()
	base, err := os.MkdirTemp("", "c16-")
	if err != nil {
		t.Fatal(err)
	}
	defer os.RemoveAll(base)
	if vh.Replaying() {
		for _, ff := range vh.ReplayFiles("C16", "TestVerifC16") {
			var c c16Case
			if err := json.Unmarshal(ff.Case, &c); err != nil {
				t.Fatalf("bad replay case: %v", err)
			}
			if f, _, _ := c16Execute(&c, nil, base, rec); f != nil && f.Signature != "harness" && !rec.Known(f.Signature) {
				rec.WriteFail(f, &c)
				t.Fatalf("%v", f)
			}
		}
		return
	}
	rapid.Check(t, func(rt *rapid.T) {
		c := &c16Case{}
		f, labels, nt := c16Execute(c, rt, base, rec)
		rec.Case(vh.Fingerprint(c), nt, labels, func() interface{} { return c })
		if f != nil {
			if f.Signature == "harness" {
				rt.Skip(f.Message)
			}
			if rec.Known(f.Signature) {
				return
			}
			rec.WriteFail(f, c)
			rt.Fatalf("%v", f)
		}
	})
}
