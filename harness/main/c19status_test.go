package main

// C19 (unit status): the time a node reports about itself. The start-up check of
// a joining node measures the clocks of its peers through their status answer
// (CurrentTime); its bound "difference provably smaller than 2s, whatever the
// delays" rests on that value being the peer's clock at the moment of the
// answer. This unit asks an in-process node for its status at generated phases
// within the second and requires the reported time to lie between the local
// clock readings taken just before and just after the request.

import (
	"encoding/json"
	"fmt"
	"os"
	"testing"
	"time"

	"pgregory.net/rapid"
	"verif.local/verif/vh"
)

type c19sCase struct {
	PhasesUs []int `json:"sleep_before_request_us"`
}

func c19sExecute(c *c19sCase, n *inode) *vh.Failure {
	for k, us := range c.PhasesUs {
		time.Sleep(time.Duration(us) * time.Microsecond)
		before := time.Now()
		r := n.private("GET", "/", nil, "robustirc", nodePassword, map[string]string{"Accept": "application/json"})
		after := time.Now()
		if r.Code != 200 {
			return vh.Failf("harness", "status: %d", r.Code)
		}
		var st struct{ CurrentTime time.Time }
		if err := json.Unmarshal(r.Body.Bytes(), &st); err != nil {
			return vh.Failf("status-not-json", "status answer is not JSON: %v", err)
		}
		// JSON carries nanoseconds; allow 1ms for the encoding of the timestamp
		if st.CurrentTime.Before(before.Add(-time.Millisecond)) || st.CurrentTime.After(after.Add(time.Millisecond)) {
			return vh.Failf("status-time-is-not-the-clock", "request #%d: the node reports CurrentTime %s, its clock read %s before and %s after the request (off by %v): a peer that measures this node's clock through the status answer is misled by that much", k, st.CurrentTime.Format(time.RFC3339Nano), before.Format(time.RFC3339Nano), after.Format(time.RFC3339Nano), st.CurrentTime.Sub(before))
		}
	}
	return nil
}

func TestVerifC19Status(t *testing.T) {
	quiet()
	rec := vh.New("C19", "TestVerifC19Status")
	defer rec.Flush()
	base, err := os.MkdirTemp("", "c19s-")
	if err != nil {
		t.Fatal(err)
	}
	defer os.RemoveAll(base)
	n, err := startNode(newNodeDir(base, 1), true)
	if err != nil {
		t.Fatalf("start: %v", err)
	}
	defer func() { n.stop() }()
	if vh.Replaying() {
		for _, ff := range vh.ReplayFiles("C19", "TestVerifC19Status") {
			var c c19sCase
			if err := json.Unmarshal(ff.Case, &c); err != nil {
				t.Fatalf("bad replay case: %v", err)
			}
			if f := c19sExecute(&c, n); f != nil && f.Signature != "harness" && !rec.Known(f.Signature) {
				rec.WriteFail(f, &c)
				t.Fatalf("%v", f)
			}
		}
		return
	}
	rapid.Check(t, func(rt *rapid.T) {
		c := &c19sCase{}
		k := rapid.IntRange(2, 6).Draw(rt, "requests")
		for i := 0; i < k; i++ {
			c.PhasesUs = append(c.PhasesUs, rapid.IntRange(0, 3000).Draw(rt, "phase"))
		}
		rec.Case(vh.Fingerprint(c)+fmt.Sprint(time.Now().UnixNano()%1000), len(c.PhasesUs) >= 3, nil, func() interface{} { return c })
		if f := c19sExecute(c, n); f != nil {
			if f.Signature == "harness" {
				rt.Skip(f.Message)
			}
			if rec.Known(f.Signature) {
				return
			}
			rec.WriteFail(f, c)
			rt.Fatalf("%v", f)
		}
	})
}
