package main

// C04 (unit node): resume at EVERY position of a real session stream.
//
// The scheduler unit (package api, vsync) decides the interleavings of resume,
// lag and catch-up over synthetic batches. This unit closes the gap between
// those batches and what the state machine really emits: an in-process node
// applies generated commands that produce multi-message replies (multi-target
// JOIN/PART/PRIVMSG/KICK/MODE, NICK and QUIT relayed to common channels,
// NAMES/WHO/WHOIS/LIST/MOTD listings, with or without a services link), the
// observer's complete stream S is read once from 0.0, and then GET
// .../messages?lastseen=<id> is issued for the id of every message of S. The
// oracle is the statement: what a resumed read delivers is exactly the rest
// of S after that message, in order, nothing missing, nothing twice.

import (
	"encoding/json"
	"fmt"
	"os"
	"strings"
	"testing"
	"time"

	"github.com/robustirc/robustirc/internal/robust"
	"pgregory.net/rapid"
	"verif.local/verif/vh"
)

type c04nOp struct {
	Who  int    `json:"who"` // 0 observer, 1 and 2 actors
	Line string `json:"line"`
}

type c04nCase struct {
	// Restore: after the complete stream was read, the node takes a snapshot and restarts from it;
	// the resumes then go to a node that rebuilt its output from the snapshot's retained entries
	// (a restarted node, or a follower that installed a snapshot: "different nodes holding the same log")
	Restore  bool `json:"snapshot_and_restart_before_the_resumes"`
	Services bool `json:"services_link"`
	// EndLag: where the last connection (during which the observer's own session ends) resumes,
	// in thousandths of the stream counted back from its end: 0 = behind the last message
	EndLag int      `json:"last_connection_resumes_this_far_back_permille"`
	Ops    []c04nOp `json:"ops"`
}

var c04nCounter int

func c04nExecute(c *c04nCase, base string) (fail *vh.Failure, labels []string, nontrivial bool) {
	c04nCounter++
	dir := newNodeDir(base, c04nCounter)
	defer os.RemoveAll(dir)
	n, err := startNode(dir, true)
	if err != nil {
		return vh.Failf("harness", "start: %v", err), nil, false
	}
	defer func() { n.stop() }()
	if code, body := n.setConfig(zeroCooloffConfig); code != 200 {
		return vh.Failf("harness", "config: %d %s", code, body), nil, false
	}
	cmid := uint64(50)
	post := func(s sessionCred, line string) int {
		cmid++
		return n.post(s, line, cmid)
	}
	mk := func(nick string) (sessionCred, *vh.Failure) {
		cred, code := n.createSession()
		if code != 200 {
			return cred, vh.Failf("harness", "create: %d", code)
		}
		for _, l := range []string{"NICK " + nick, "USER " + nick + " 0 * :" + nick} {
			if code := post(cred, l); code != 200 {
				return cred, vh.Failf("harness", "register %q: %d", l, code)
			}
		}
		return cred, nil
	}
	var who [3]sessionCred
	for k, nick := range []string{"observer", "anna", "bert"} {
		var f *vh.Failure
		if who[k], f = mk(nick); f != nil {
			return f, nil, false
		}
	}
	if c.Services {
		link, code := n.createSession()
		if code != 200 {
			return vh.Failf("harness", "create: %d", code), nil, false
		}
		for _, l := range []string{"PASS :services=mypass", "SERVER services.robustirc.net 1 :Services", "NICK ChanServ 1 1422134861 services localhost.net services.localhost.net 0 :Channel Services"} {
			if code := post(link, l); code != 200 {
				return vh.Failf("harness", "link %q: %d", l, code), nil, false
			}
		}
	}
	post(who[0], "JOIN #a,#b,#c")
	post(who[1], "JOIN #a,#b")
	setupEnd := robust.IdFromRaftIndex(node.LastIndex())
	for _, op := range c.Ops {
		if code := post(who[op.Who%3], op.Line); code != 200 && (code < 400 || code > 499) {
			return vh.Failf("harness", "post %q: %d", op.Line, code), nil, false
		}
	}
	// a fresh session posts the sentinel: the actors may have quit or been killed
	last, f := mk("zed")
	if f != nil {
		return f, nil, false
	}
	sentinel := fmt.Sprintf("sentinel-%d", cmid)
	obsNick := "observer"
	if s, err := ircServer.GetSession(robust.Id{Id: who[0].Num}); err == nil && s.Nick != "" {
		obsNick = s.Nick
	}
	if code := post(last, "PRIVMSG "+obsNick+" :"+sentinel); code != 200 {
		return vh.Failf("harness", "sentinel: %d", code), nil, false
	}
	hasSentinel := func(m []streamed) bool {
		for _, x := range m {
			if strings.Contains(x.Data, sentinel) {
				return true
			}
		}
		return false
	}
	full, code := n.readStream(who[0], who[0].Auth, "0.0", hasSentinel, 5*time.Second)
	if code != 200 || !hasSentinel(full) {
		// the observer itself quit or was killed by a generated line: nothing to resume
		return nil, []string{"c04n:observer-ended"}, false
	}
	// S ends with the sentinel
	for k := range full {
		if strings.Contains(full[k].Data, sentinel) {
			full = full[:k+1]
			break
		}
	}
	// ids strictly increase
	for k := 1; k < len(full); k++ {
		a, b := full[k-1].Id, full[k].Id
		if b.Id < a.Id || (b.Id == a.Id && b.Reply <= a.Reply) {
			return vh.Failf("node:stream-not-in-id-order", "the complete stream delivers %d.%d after %d.%d", b.Id, b.Reply, a.Id, a.Reply), nil, true
		}
	}
	lab := map[string]bool{}
	if c.Restore {
		if err := n.snapshot(); err != nil {
			return vh.Failf("harness", "snapshot: %v", err), nil, false
		}
		nn, err := n.restart()
		if err != nil {
			return vh.Failf("harness", "restart: %v", err), nil, false
		}
		n = nn
		lab["c04n:resumes-on-a-node-restored-from-a-snapshot"] = true
	}
	inBatch := map[uint64]int{}
	for _, m := range full {
		inBatch[m.Id.Id]++
	}
	for id, cnt := range inBatch {
		// batches caused by the generated lines (the welcome and JOIN bursts of the set-up are in every case)
		if id > setupEnd && cnt >= 2 {
			nontrivial = true
			lab["c04n:cut-inside-generated-batch"] = true
		}
		if id > setupEnd && cnt >= 4 {
			lab["c04n:cut-inside-generated-batch-of->=4"] = true
		}
	}
	for k := range full {
		want := full[k+1:]
		lastseen := fmt.Sprintf("%d.%d", full[k].Id.Id, full[k].Id.Reply)
		var got []streamed
		if len(want) == 0 {
			got, code = n.readStream(who[0], who[0].Auth, lastseen, nil, 60*time.Millisecond)
		} else {
			got, code = n.readStream(who[0], who[0].Auth, lastseen, hasSentinel, 5*time.Second)
		}
		if code != 200 {
			return vh.Failf("node:resume-refused", "GET messages?lastseen=%s answered %d", lastseen, code), keys2(lab), true
		}
		for j := range got {
			if strings.Contains(got[j].Data, sentinel) {
				got = got[:j+1]
				break
			}
		}
		describe := func(ms []streamed) string {
			var ids []string
			for _, m := range ms {
				ids = append(ids, fmt.Sprintf("%d.%d", m.Id.Id-full[0].Id.Id, m.Id.Reply))
			}
			return strings.Join(ids, " ")
		}
		if len(got) != len(want) {
			kind := "node:message-missing-after-resume"
			if len(got) > len(want) {
				kind = "node:message-twice-after-resume"
			}
			return vh.Failf(kind, "resume with lastseen=%s (message #%d of %d, %q; ids below are relative to the first id): expected the remaining %d messages [%s], received %d [%s]", lastseen, k, len(full), full[k].Data, len(want), describe(want), len(got), describe(got)), keys2(lab), true
		}
		for j := range want {
			// numeric 003 carries the creation time of the server instance: a restarted node has its own
			if got[j].Id == want[j].Id && strings.Contains(want[j].Data, " 003 ") && strings.Contains(got[j].Data, " 003 ") {
				continue
			}
			if got[j].Id != want[j].Id || got[j].Data != want[j].Data {
				return vh.Failf("node:resumed-stream-differs", "resume with lastseen=%s: message #%d is %d.%d %q, in the complete stream it is %d.%d %q", lastseen, j, got[j].Id.Id, got[j].Id.Reply, got[j].Data, want[j].Id.Id, want[j].Id.Reply, want[j].Data), keys2(lab), true
			}
		}
	}
	// The end of the stream: the observer is connected when its own QUIT is applied — waiting
	// behind its last message, or still behind (it resumed further back: a client that lags
	// when its session ends). What is addressed to it up to and including that entry (the
	// relayed QUIT, ERROR :Closing Link) belongs to its stream like everything before; it has no
	// later connection to get it from, a session that is gone cannot be resumed.
	if _, err := ircServer.GetSession(robust.Id{Id: who[0].Num}); err == nil {
		from := len(full) - 1 - c.EndLag*(len(full)-1)/1000
		if from < 0 || from > len(full)-1 {
			from = len(full) - 1
		}
		lastseen := fmt.Sprintf("%d.%d", full[from].Id.Id, full[from].Id.Reply)
		type res struct {
			msgs []streamed
			code int
		}
		done := make(chan res, 1)
		// the QUIT is posted once the node has accepted the GET (status 200 written: the session
		// was found and the stream is being served) — not after a guessed delay, which under load
		// let the QUIT overtake the GET, and a GET for a session that is gone is rightly refused
		accepted := make(chan struct{})
		go func() {
			m, c := n.readStreamAccepted(who[0], who[0].Auth, lastseen, nil, 20*time.Second, accepted)
			done <- res{m, c}
		}()
		<-accepted
		if code := post(who[0], "QUIT :the end"); code == 200 {
			quitID := robust.IdFromRaftIndex(node.LastIndex())
			r := <-done
			want := append([]streamed{}, full[from+1:]...)
			inQuit := 0
			if batch, ok := outputStream.Get(robust.Id{Id: quitID}); ok {
				for _, m := range batch {
					if m.InterestingFor[who[0].Num] {
						want = append(want, streamed{Id: m.Id, Data: m.Data})
						inQuit++
					}
				}
			}
			lab["c04n:connected-while-own-session-ends"] = true
			if from < len(full)-1 {
				lab["c04n:lagging-while-own-session-ends"] = true
			}
			got := r.msgs
			if r.code != 200 {
				return vh.Failf("node:resume-refused", "GET messages?lastseen=%s answered %d although the session existed", lastseen, r.code), keys2(lab), true
			}
			if len(got) < len(want) {
				return vh.Failf("node:last-messages-of-ending-session-missing", "the observer was connected (lastseen=%s, %d messages behind the end of its stream) when its QUIT was applied as %d: %d messages were addressed to it after lastseen (%d of them by that entry), the connection delivered %d before it was closed", lastseen, len(full)-1-from, quitID, len(want), inQuit, len(got)), keys2(lab), true
			}
			if len(got) > len(want) {
				return vh.Failf("node:message-twice-after-resume", "end of stream, lastseen=%s: %d messages expected, %d received", lastseen, len(want), len(got)), keys2(lab), true
			}
			for j := range want {
				if got[j].Id == want[j].Id && strings.Contains(want[j].Data, " 003 ") && strings.Contains(got[j].Data, " 003 ") {
					continue
				}
				if got[j].Id != want[j].Id || got[j].Data != want[j].Data {
					return vh.Failf("node:resumed-stream-differs", "end of stream: message #%d is %v %q, expected %v %q", j, got[j].Id, got[j].Data, want[j].Id, want[j].Data), keys2(lab), true
				}
			}
		} else {
			<-done
		}
	}
	return nil, keys2(lab), nontrivial
}

var c04nLines = []string{
	"JOIN #a,#b,#c", "JOIN #b", "JOIN #c,#d,#e,#f", "PART #a,#b :bye", "PART #a,#b,#c,#d", "PART #c",
	"NICK newnick", "NICK other", "PRIVMSG #a,#b,observer :hi", "PRIVMSG #a :one", "NOTICE #b,#c :n",
	"MODE #a +o anna", "MODE #a +oo-o anna bert observer", "MODE #b +tn", "KICK #a,#b bert,bert :out", "KICK #a observer",
	"TOPIC #a :topic", "NAMES #a,#b,#c", "NAMES", "WHO #a", "WHOIS observer,anna,bert", "LIST", "MOTD", "AWAY :x", "AWAY",
	"INVITE observer #d", "QUIT :bye", "PING x", "USERHOST observer anna", "ISON observer anna bert", "MODE #a +b x!*@*", "MODE #a b",
}

func TestVerifC04Node(t *testing.T) {
	quiet()
	rec := vh.New("C04", "TestVerifC04Node")
	defer rec.Flush()
	base, err := os.MkdirTemp("", "c04n-")
	if err != nil {
		t.Fatal(err)
	}
	defer os.RemoveAll(base)
	if vh.Replaying() {
		for _, ff := range vh.ReplayFiles("C04", "TestVerifC04Node") {
			var c c04nCase
			if err := json.Unmarshal(ff.Case, &c); err != nil {
				t.Fatalf("bad replay case: %v", err)
			}
			if f, _, _ := c04nExecute(&c, base); f != nil && f.Signature != "harness" && !rec.Known(f.Signature) {
				rec.WriteFail(f, &c)
				t.Fatalf("%v", f)
			}
		}
		return
	}
	rapid.Check(t, func(rt *rapid.T) {
		c := &c04nCase{Services: rapid.Bool().Draw(rt, "services"), Restore: rapid.IntRange(0, 2).Draw(rt, "restore") == 0,
			EndLag: rapid.SampledFrom([]int{0, 0, 30, 100, 300, 600, 1000}).Draw(rt, "end_lag")}
		nops := rapid.IntRange(1, 10).Draw(rt, "nops")
		for k := 0; k < nops; k++ {
			// the observer does not quit: its stream is what is resumed
			op := c04nOp{Who: rapid.IntRange(0, 2).Draw(rt, "who"), Line: rapid.SampledFrom(c04nLines).Draw(rt, "line")}
			if op.Who == 0 && strings.HasPrefix(op.Line, "QUIT") {
				op.Line = "NAMES"
			}
			c.Ops = append(c.Ops, op)
		}
		f, labels, nt := c04nExecute(c, base)
		rec.Case(vh.Fingerprint(c), nt, labels, func() interface{} { return c })
		if f != nil {
			if f.Signature == "harness" {
				rt.Skip(f.Message)
			}
			if rec.Known(f.Signature) {
				return
			}
			rec.WriteFail(f, c)
			rt.Fatalf("%v", f)
		}
	})
}
