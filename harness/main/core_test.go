package main

// Shared core of the package main harnesses (overlaid into the repository
// root at check time): ground truth for the history generator read through
// reflection, encoding of generated entries as raft log entries, a reference
// instance that replays the log without ever snapshotting, and an FSM
// environment with real LevelDB stores, output stream and file snapshot store.

import (
	"encoding/json"
	"flag"
	"fmt"
	"io"
	"log"
	"os"
	"path/filepath"
	"reflect"
	"sort"
	"strings"
	"time"

	"github.com/golang/protobuf/proto"
	"github.com/hashicorp/raft"
	"github.com/robustirc/robustirc/internal/ircserver"
	"github.com/robustirc/robustirc/internal/outputstream"
	"github.com/robustirc/robustirc/internal/raftstore"
	"github.com/robustirc/robustirc/internal/robust"
	"pgregory.net/rapid"
	"verif.local/verif/ircgen"
	"verif.local/verif/vh"
)

const mainNetwork = "robustirc.net"

func quiet() {
	log.SetOutput(io.Discard)
	flag.Set("logtostderr", "false")
	flag.Set("stderrthreshold", "FATAL")
	*network = mainNetwork
	// like main(): message ids are the raft index plus the configured offset
	robust.MessageOffset = *messageOffset
}

func commandNames() []string {
	var names []string
	for k := range ircserver.Commands {
		names = append(names, k)
	}
	sort.Strings(names)
	return names
}

func rstr(v reflect.Value, name string) string {
	f := v.FieldByName(name)
	if !f.IsValid() {
		return ""
	}
	return f.String()
}

func rbool(v reflect.Value, name string) bool {
	f := v.FieldByName(name)
	return f.IsValid() && f.Bool()
}

// worldOf reads the generator's ground truth out of an IRCServer by reflection
// (the fields are unexported; kind getters are allowed on them).
func worldOf(i *ircserver.IRCServer) *ircgen.World {
	w := &ircgen.World{}
	iv := reflect.ValueOf(i).Elem()
	nickOf := map[string]string{} // lc nick -> display nick
	sess := iv.FieldByName("sessions")
	for _, k := range sess.MapKeys() {
		s := sess.MapIndex(k).Elem()
		// the generator works with logical ids (raft indexes); message ids carry the offset
		si := ircgen.SessInfo{Id: k.Field(0).Uint() - robust.MessageOffset, Reply: k.Field(1).Uint(), Nick: rstr(s, "Nick"), User: rstr(s, "Username"), LoggedIn: rbool(s, "loggedIn"), Oper: rbool(s, "Operator"), Server: rbool(s, "Server"), Auth: rstr(s, "auth"), RemoteAddr: rstr(s, "RemoteAddr")}
		la := s.FieldByName("LastActivity")
		ext := la.FieldByName("ext").Int()
		wall := la.FieldByName("wall").Uint()
		// times built by time.Unix: ext = seconds since year 1, wall = nanoseconds
		si.LastActivity = (ext-62135596800)*1e9 + int64(wall&0x3fffffff)
		if si.Nick != "" {
			nickOf[ircgen.NickLower(si.Nick)] = si.Nick
		}
		w.Sessions = append(w.Sessions, si)
	}
	chans := iv.FieldByName("channels")
	chanName := map[string]string{}
	for _, k := range chans.MapKeys() {
		c := chans.MapIndex(k).Elem()
		ci := ircgen.ChanInfo{Name: rstr(c, "name"), Key: rstr(c, "key")}
		chanName[k.String()] = ci.Name
		nicks := c.FieldByName("nicks")
		for _, nk := range nicks.MapKeys() {
			disp := nk.String()
			if d, ok := nickOf[disp]; ok {
				disp = d
			}
			ci.Members = append(ci.Members, disp)
			p := nicks.MapIndex(nk)
			if !p.IsNil() && p.Elem().Index(0).Bool() {
				ci.Ops = append(ci.Ops, disp)
			}
		}
		sort.Strings(ci.Members)
		sort.Strings(ci.Ops)
		modes := c.FieldByName("modes")
		for m := 'A'; m < 'z'; m++ {
			if modes.Index(int(m)).Bool() {
				ci.Modes += string(m)
			}
		}
		bans := c.FieldByName("bans")
		for b := 0; b < bans.Len(); b++ {
			ci.Bans = append(ci.Bans, bans.Index(b).FieldByName("pattern").String())
		}
		w.Channels = append(w.Channels, ci)
	}
	for k := range w.Sessions {
		sk := reflect.ValueOf(robust.Id{Id: w.Sessions[k].Id + robust.MessageOffset, Reply: w.Sessions[k].Reply})
		s := sess.MapIndex(sk).Elem()
		for _, ck := range s.FieldByName("Channels").MapKeys() {
			if n, ok := chanName[ck.String()]; ok {
				w.Sessions[k].Channels = append(w.Sessions[k].Channels, n)
			}
		}
		sort.Strings(w.Sessions[k].Channels)
	}
	sort.Slice(w.Sessions, func(a, b int) bool {
		if w.Sessions[a].Id != w.Sessions[b].Id {
			return w.Sessions[a].Id < w.Sessions[b].Id
		}
		return w.Sessions[a].Reply < w.Sessions[b].Reply
	})
	sort.Slice(w.Channels, func(a, b int) bool { return w.Channels[a].Name < w.Channels[b].Name })
	for _, k := range iv.FieldByName("svsholds").MapKeys() {
		w.Holds = append(w.Holds, k.String())
	}
	sort.Strings(w.Holds)
	return w
}

func toMessage(e ircgen.Entry) robust.Message {
	m := robust.Message{Id: robust.Id{Id: robust.IdFromRaftIndex(e.Id)}, Session: robust.Id{Id: e.Session}, Data: e.Data, UnixNano: e.Nano, RemoteAddr: e.Addr, ClientMessageId: e.CMID, Revision: e.Rev}
	if e.Session != 0 {
		m.Session.Id = robust.IdFromRaftIndex(e.Session)
	}
	switch e.Kind {
	case "create":
		m.Type = robust.CreateSession
	case "delete":
		m.Type = robust.DeleteSession
	case "irc":
		m.Type = robust.IRCFromClient
	case "config":
		m.Type = robust.Config
	case "mod":
		m.Type = robust.MessageOfDeath
	default:
		panic("unknown entry kind " + e.Kind)
	}
	return m
}

// toLog encodes an entry the way api.applyMessageWait does ('p' + protobuf) or as legacy JSON.
func toLog(e ircgen.Entry, useProto bool) *raft.Log {
	m := toMessage(e)
	// api.applyMessageWait encodes the message before raft assigns the index: the id is absent
	// in the log entry and defaults to offset + index on every reader
	m.Id = robust.Id{}
	l := &raft.Log{Type: raft.LogCommand, Index: e.Id, Term: 1, AppendedAt: time.Unix(0, e.Nano)}
	if useProto {
		b, err := proto.Marshal(m.ProtoMessage())
		if err != nil {
			panic(err)
		}
		l.Data = append([]byte{'p'}, b...)
	} else {
		b, err := json.Marshal(&m)
		if err != nil {
			panic(err)
		}
		l.Data = b
	}
	return l
}

type outLine struct {
	Id    uint64   `json:"id"`
	Reply uint64   `json:"reply"`
	Data  string   `json:"data"`
	To    []uint64 `json:"to"`
}

func mask003(data string) string {
	f := strings.SplitN(data, " ", 4)
	if len(f) >= 3 && f[1] == "003" {
		return f[0] + " 003 " + f[2] + " :<creation time masked>"
	}
	return data
}

// outputOf reads the batch stored for an input id in canonical form ("" when absent).
func outputOf(o *outputstream.OutputStream, index uint64) (string, bool) {
	msgs, ok := o.Get(robust.Id{Id: robust.IdFromRaftIndex(index)})
	if !ok {
		return "", false
	}
	var parts []string
	for _, m := range msgs {
		var to []uint64
		for k, v := range m.InterestingFor {
			if v {
				to = append(to, k)
			}
		}
		sort.Slice(to, func(a, b int) bool { return to[a] < to[b] })
		parts = append(parts, fmt.Sprintf("%d.%d %q %v", m.Id.Id, m.Id.Reply, mask003(m.Data), to))
	}
	return strings.Join(parts, " | "), true
}

// reference is an instance that applies the log through the real
// applyRobustMessage and is never snapshotted, restored or restarted.
type reference struct {
	srv    *ircserver.IRCServer
	out    *outputstream.OutputStream
	fsm    *FSM
	dumps  []map[string]string // state after k entries
	expSec []time.Duration     // session expiration in force after k entries
	outs   map[uint64]string   // canonical output per input id
	hasOut map[uint64]bool
	ts     map[uint64]int64
}

func newReference(tmp string, initialTOML string) *reference {
	r := &reference{srv: ircserver.NewIRCServer(mainNetwork, time.Unix(0, 1)), fsm: &FSM{}, outs: map[uint64]string{}, hasOut: map[uint64]bool{}, ts: map[uint64]int64{}}
	var err error
	r.out, err = outputstream.NewOutputStream(tmp)
	if err != nil {
		panic(err)
	}
	r.record()
	return r
}

func (r *reference) record() {
	r.dumps = append(r.dumps, vh.DumpServer(r.srv))
	r.expSec = append(r.expSec, time.Duration(r.srv.Config.SessionExpiration))
}

// apply applies one entry; it reports a panic as an error string.
func (r *reference) apply(e ircgen.Entry) (pan string) {
	defer func() {
		if x := recover(); x != nil {
			pan = fmt.Sprint(x)
		}
	}()
	m := toMessage(e)
	r.fsm.applyRobustMessage(&m, r.srv, r.out)
	if s, ok := outputOf(r.out, e.Id); ok {
		r.outs[e.Id] = s
		r.hasOut[e.Id] = true
	}
	r.ts[e.Id] = m.Timestamp().UnixNano()
	r.record()
	return ""
}

func (r *reference) close() { r.out.Close() }

// genHistory draws a history, applying it to a fresh reference as it goes.
func genHistory(rt *rapid.T, tmp string, opt ircgen.Options, minLen, maxLen int) ([]ircgen.Entry, *reference) {
	ref := newReference(tmp, "")
	opt.Commands = commandNames()
	g := ircgen.New(opt)
	n := rapid.IntRange(minLen, maxLen).Draw(rt, "history_len")
	var entries []ircgen.Entry
	for k := 0; k < n; k++ {
		e := g.Next(rt, worldOf(ref.srv))
		if pan := ref.apply(e); pan != "" {
			break // C06's business; the history ends before the panicking entry
		}
		entries = append(entries, e)
	}
	return entries, ref
}

// replayHistory rebuilds the reference for recorded entries.
func replayHistory(entries []ircgen.Entry, tmp string) *reference {
	ref := newReference(tmp, "")
	for _, e := range entries {
		if pan := ref.apply(e); pan != "" {
			panic("recorded history panics on the reference: " + pan)
		}
	}
	return ref
}

// ---- FSM environment ----

type fsmEnv struct {
	dir      string
	useProto bool
	logstore *raftstore.LevelDBStore
	fsm      *FSM
	fss      raft.SnapshotStore
}

func newFsmEnv(base string, n int, useProto bool) *fsmEnv {
	dir := filepath.Join(base, fmt.Sprintf("env%d", n))
	if err := os.MkdirAll(dir, 0755); err != nil {
		panic(err)
	}
	quiet()
	*raftDir = dir
	*useProtobuf = useProto
	e := &fsmEnv{dir: dir, useProto: useProto}
	var err error
	e.logstore, err = raftstore.NewLevelDBStore(filepath.Join(dir, "raftlog"), false, useProto)
	if err != nil {
		panic(err)
	}
	e.fss, err = raft.NewFileSnapshotStore(dir, 5, io.Discard)
	if err != nil {
		panic(err)
	}
	e.freshFSM()
	return e
}

// freshFSM is what a process start does: new server, new (empty) output
// stream, irclog reopened from disk, empty snapshot bookkeeping.
func (e *fsmEnv) freshFSM() {
	ircServer = ircserver.NewIRCServer(*network, time.Unix(0, 2))
	if outputStream != nil {
		outputStream.Close()
	}
	var err error
	outputStream, err = outputstream.NewOutputStream(e.dir)
	if err != nil {
		panic(err)
	}
	if e.fsm != nil && e.fsm.ircstore != nil {
		e.fsm.ircstore.Close()
	}
	ircStore, err = raftstore.NewLevelDBStore(filepath.Join(e.dir, "irclog"), false, e.useProto)
	if err != nil {
		panic(err)
	}
	e.fsm = &FSM{store: e.logstore, ircstore: ircStore, lastSnapshotState: make(map[uint64][]byte),
		ReplaceState: func(*ircserver.IRCServer, *raftstore.LevelDBStore, *outputstream.OutputStream) {}}
}

func (e *fsmEnv) close() {
	if outputStream != nil {
		outputStream.Close()
		outputStream = nil
	}
	if e.fsm != nil && e.fsm.ircstore != nil {
		e.fsm.ircstore.Close()
	}
	e.logstore.Close()
	os.RemoveAll(e.dir)
}

func decodeAny(b []byte, idx uint64) robust.Message { return robust.NewMessageFromBytes(b, idx) }
