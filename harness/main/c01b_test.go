package main

// C01 (unit b): the same history through the real FSM.applyRobustMessage and a
// real output stream on three instances gives identical stored output and state.

import (
	"encoding/json"
	"fmt"
	"os"
	"strings"
	"testing"

	"pgregory.net/rapid"
	"verif.local/verif/ircgen"
	"verif.local/verif/vh"
)

type c01bCase struct {
	Entries []ircgen.Entry `json:"entries"`
}

var c01bCounter int

func c01bCheck(entries []ircgen.Entry, first *reference, base string) *vh.Failure {
	for inst := 2; inst <= 3; inst++ {
		c01bCounter++
		tmp := fmt.Sprintf("%s/i%d", base, c01bCounter)
		os.MkdirAll(tmp, 0755)
		other := newReference(tmp, "")
		for k, e := range entries {
			if pan := other.apply(e); pan != "" {
				other.close()
				os.RemoveAll(tmp)
				return vh.Failf("panic-on-one-instance", "entry #%d %q panicked on instance %d only: %s", k, e.Data, inst, pan)
			}
			if first.hasOut[e.Id] != other.hasOut[e.Id] || first.outs[e.Id] != other.outs[e.Id] {
				other.close()
				os.RemoveAll(tmp)
				return vh.Failf("stored-output-differs/after:"+e.Kind, "entry #%d (%s) %q: output stored by instance 1: %q, by instance %d: %q", k, e.Kind, e.Data, first.outs[e.Id], inst, other.outs[e.Id])
			}
			if d := vh.DiffDumps(first.dumps[k+1], other.dumps[k+1], 4); len(d) > 0 {
				other.close()
				os.RemoveAll(tmp)
				return vh.Failf("state-differs:"+vh.GenericPath(strings.SplitN(d[0], ": ", 2)[0]), "after entry #%d (%s) %q the state of instance 1 and instance %d differs: %s", k, e.Kind, e.Data, inst, strings.Join(d, "; "))
			}
		}
		other.close()
		os.RemoveAll(tmp)
	}
	return nil
}

func TestVerifC01Main(t *testing.T) {
	quiet()
	rec := vh.New("C01", "TestVerifC01Main")
	defer rec.Flush()
	base, err := os.MkdirTemp("", "c01b-")
	if err != nil {
		t.Fatal(err)
	}
	defer os.RemoveAll(base)
	if vh.Replaying() {
		for _, ff := range vh.ReplayFiles("C01", "TestVerifC01Main") {
			var c c01bCase
			if err := json.Unmarshal(ff.Case, &c); err != nil {
				t.Fatalf("bad replay case: %v", err)
			}
			tmp := base + "/replay"
			os.MkdirAll(tmp, 0755)
			ref := replayHistory(c.Entries, tmp)
			f := c01bCheck(c.Entries, ref, base)
			ref.close()
			if f != nil && !rec.Known(f.Signature) {
				rec.WriteFail(f, &c)
				t.Fatalf("%v", f)
			}
		}
		return
	}
	n := 0
	rapid.Check(t, func(rt *rapid.T) {
		n++
		tmp := fmt.Sprintf("%s/g%d", base, n)
		os.MkdirAll(tmp, 0755)
		defer os.RemoveAll(tmp)
		// one of the generator's profiles per history, as in the ircserver unit (seed C01c needs an
		// operator's GLINE behind a configuration entry)
		profile := rapid.SampledFrom([]string{"", "privilege", "membership"}).Draw(rt, "generator_profile")
		entries, ref := genHistory(rt, tmp, ircgen.Options{WithMoD: true, Bias: profile}, 5, 60)
		defer ref.close()
		c := &c01bCase{Entries: entries}
		multi := false
		for _, e := range entries {
			if strings.Count(ref.outs[e.Id], " | ") >= 1 {
				multi = true
			}
		}
		rec.Case(vh.Fingerprint(c), multi && len(entries) >= 8, nil, func() interface{} { return c })
		if f := c01bCheck(entries, ref, base); f != nil {
			if rec.Known(f.Signature) {
				return
			}
			rec.WriteFail(f, c)
			rt.Fatalf("%v", f)
		}
	})
}
