package main

// In-process single node: real FSM, real LevelDB stores, real output stream,
// real raft (single voter, in-memory transport, 50 ms timeouts, file snapshot
// store) and the real api.HTTP driven through DispatchPublic/DispatchPrivate.

import (
	"bytes"
	"context"
	"encoding/json"
	"fmt"
	"io"
	"net/http"
	"net/http/httptest"
	"os"
	"path/filepath"
	"strconv"
	"strings"
	"sync"
	"time"

	"github.com/hashicorp/raft"
	"github.com/robustirc/rafthttp"
	"github.com/robustirc/robustirc/internal/api"
	"github.com/robustirc/robustirc/internal/ircserver"
	"github.com/robustirc/robustirc/internal/outputstream"
	"github.com/robustirc/robustirc/internal/raftstore"
	"github.com/robustirc/robustirc/internal/robust"
)

const nodePassword = "networkpw"

type inode struct {
	dir      string
	fsm      *FSM
	logStore *raftstore.LevelDBStore
	fss      raft.SnapshotStore
	h        *api.HTTP
	raft     *raft.Raft
}

// nodeJSON: the node runs with -pre1.0_protobuf=false (legacy JSON encoding of log entries,
// the log copy and the snapshot's retained messages). Set by a check for the duration of a case.
var nodeJSON bool

func startNode(dir string, bootstrap bool) (*inode, error) {
	quiet()
	*raftDir = dir
	*useProtobuf = !nodeJSON
	*canaryCompactionStart = 0
	n := &inode{dir: dir}
	var err error
	ircServer = ircserver.NewIRCServer(*network, time.Now())
	outputStream, err = outputstream.NewOutputStream(dir)
	if err != nil {
		return nil, err
	}
	n.logStore, err = raftstore.NewLevelDBStore(filepath.Join(dir, "raftlog"), bootstrap, !nodeJSON)
	if err != nil {
		return nil, err
	}
	ircStore, err = raftstore.NewLevelDBStore(filepath.Join(dir, "irclog"), bootstrap, !nodeJSON)
	if err != nil {
		return nil, err
	}
	n.fsm = &FSM{store: n.logStore, ircstore: ircStore, lastSnapshotState: make(map[uint64][]byte),
		ReplaceState: func(*ircserver.IRCServer, *raftstore.LevelDBStore, *outputstream.OutputStream) {}}
	cfg := raft.DefaultConfig()
	cfg.HeartbeatTimeout = 50 * time.Millisecond
	cfg.ElectionTimeout = 50 * time.Millisecond
	cfg.LeaderLeaseTimeout = 50 * time.Millisecond
	cfg.CommitTimeout = 2 * time.Millisecond
	cfg.SnapshotInterval = time.Hour
	cfg.SnapshotThreshold = 1 << 30
	cfg.LocalID = "n1"
	cfg.LogOutput = io.Discard
	addr, trans := raft.NewInmemTransport("n1")
	n.fss, err = raft.NewFileSnapshotStore(dir, 5, io.Discard)
	if err != nil {
		return nil, err
	}
	node, err = raft.NewRaft(cfg, n.fsm, n.logStore, n.logStore, n.fss, trans)
	if err != nil {
		return nil, err
	}
	if bootstrap {
		if err := node.BootstrapCluster(raft.Configuration{Servers: []raft.Server{{ID: "n1", Address: addr}}}).Error(); err != nil {
			return nil, err
		}
	}
	deadline := time.Now().Add(10 * time.Second)
	for node.State() != raft.Leader {
		if time.Now().After(deadline) {
			return nil, fmt.Errorf("node did not become leader")
		}
		time.Sleep(2 * time.Millisecond)
	}
	if err := node.Barrier(10 * time.Second).Error(); err != nil {
		return nil, fmt.Errorf("barrier: %v", err)
	}
	n.h = api.NewHTTP(ircServer, node, ircStore, outputStream, &rafthttp.HTTPTransport{}, *network, nodePassword, dir, "n1", !nodeJSON, 3)
	n.fsm.ReplaceState = n.h.ReplaceState
	n.raft = node
	return n, nil
}

func (n *inode) stop() {
	// let the helper goroutines of finished GetMessages requests leave the output stream
	// (they are woken asynchronously when their request ends) before it is closed
	if outputStream != nil {
		outputStream.InterruptGetNext()
		time.Sleep(20 * time.Millisecond)
	}
	node.Shutdown().Error()
	if outputStream != nil {
		outputStream.Close()
	}
	ircStore.Close()
	n.logStore.Close()
}

func (n *inode) restart() (*inode, error) {
	n.stop()
	return startNode(n.dir, false)
}

func (n *inode) snapshot() error { return node.Snapshot().Error() }

// ---- HTTP helpers ----

type sessionCred struct {
	Id   string
	Auth string
	Num  uint64
	Addr string // remote address ("host:port") the session's requests come from
}

func (n *inode) public(method, path string, body []byte, hdr map[string]string) *httptest.ResponseRecorder {
	req := httptest.NewRequest(method, "/robustirc/v1/"+path, bytes.NewReader(body))
	req.RemoteAddr = "192.0.2.1:4711"
	for k, v := range hdr {
		if k == "RemoteAddr" {
			req.RemoteAddr = v
			continue
		}
		req.Header.Set(k, v)
	}
	rec := httptest.NewRecorder()
	n.h.DispatchPublic(rec, req)
	return rec
}

func (n *inode) private(method, path string, body []byte, user, pass string, hdr map[string]string) *httptest.ResponseRecorder {
	req := httptest.NewRequest(method, path, bytes.NewReader(body))
	if user != "" || pass != "" {
		req.SetBasicAuth(user, pass)
	}
	for k, v := range hdr {
		req.Header.Set(k, v)
	}
	rec := httptest.NewRecorder()
	n.h.DispatchPrivate(rec, req)
	return rec
}

func (n *inode) createSession() (sessionCred, int) {
	rec := n.public("POST", "session", nil, nil)
	var cs struct{ Sessionid, Sessionauth string }
	json.Unmarshal(rec.Body.Bytes(), &cs)
	c := sessionCred{Id: cs.Sessionid, Auth: cs.Sessionauth}
	c.Num, _ = strconv.ParseUint(cs.Sessionid, 0, 64)
	return c, rec.Code
}

func (n *inode) postRaw(s sessionCred, body []byte) *httptest.ResponseRecorder {
	hdr := map[string]string{"X-Session-Auth": s.Auth}
	if s.Addr != "" {
		hdr["RemoteAddr"] = s.Addr
	}
	return n.public("POST", s.Id+"/message", body, hdr)
}

func (n *inode) post(s sessionCred, data string, cmid uint64) int {
	b, _ := json.Marshal(map[string]interface{}{"Data": data, "ClientMessageId": cmid})
	return n.postRaw(s, b).Code
}

func (n *inode) deleteSession(s sessionCred, quit string) int {
	b, _ := json.Marshal(map[string]interface{}{"Quitmessage": quit})
	return n.public("DELETE", s.Id, b, map[string]string{"X-Session-Auth": s.Auth}).Code
}

func (n *inode) setConfig(tomlText string) (int, string) {
	rec := n.private("GET", "/config", nil, "robustirc", nodePassword, nil)
	rev := rec.Header().Get("X-RobustIRC-Config-Revision")
	rec = n.private("POST", "/config", []byte(tomlText), "robustirc", nodePassword, map[string]string{"X-RobustIRC-Config-Revision": rev})
	return rec.Code, rec.Body.String()
}

// streamWriter collects the JSON lines a GetMessages handler writes.
type streamWriter struct {
	mu     sync.Mutex
	hdr    http.Header
	code   int
	buf    bytes.Buffer
	notify chan struct{}
	// accepted (optional) is closed when the handler answers with its status line: for GET
	// messages that is the moment the session was looked up and the request accepted
	accepted     chan struct{}
	acceptedOnce sync.Once
}

func (w *streamWriter) Header() http.Header { return w.hdr }
func (w *streamWriter) WriteHeader(c int) {
	w.mu.Lock()
	if w.code == 0 {
		w.code = c
	}
	w.mu.Unlock()
	if w.accepted != nil {
		w.acceptedOnce.Do(func() { close(w.accepted) })
	}
}
func (w *streamWriter) Write(p []byte) (int, error) {
	w.mu.Lock()
	if w.code == 0 {
		w.code = 200
	}
	w.buf.Write(p)
	w.mu.Unlock()
	select {
	case w.notify <- struct{}{}:
	default:
	}
	return len(p), nil
}
func (w *streamWriter) Flush() {}

func (w *streamWriter) lines() []string {
	w.mu.Lock()
	defer w.mu.Unlock()
	s := w.buf.String()
	if k := strings.LastIndex(s, "\n"); k >= 0 {
		s = s[:k]
	} else {
		s = ""
	}
	if s == "" {
		return nil
	}
	return strings.Split(s, "\n")
}

type streamed struct {
	Id   robust.Id
	Type robust.Type
	Data string
	Raw  string
}

func parseStream(lines []string) []streamed {
	var out []streamed
	for _, l := range lines {
		var m robust.Message
		if err := json.Unmarshal([]byte(l), &m); err != nil {
			out = append(out, streamed{Raw: l, Data: "<unparsable JSON>"})
			continue
		}
		if m.Type == robust.Ping {
			continue
		}
		out = append(out, streamed{Id: m.Id, Type: m.Type, Data: m.Data, Raw: l})
	}
	return out
}

// readStream runs GET .../messages?lastseen=<lastseen> until done(messages so far) is true or maxWait elapses.
func (n *inode) readStream(s sessionCred, auth string, lastseen string, done func([]streamed) bool, maxWait time.Duration) ([]streamed, int) {
	return n.readStreamAccepted(s, auth, lastseen, done, maxWait, nil)
}

// readStreamAccepted is readStream that closes accepted once the node has answered the request
// with a status (or has returned without one).
func (n *inode) readStreamAccepted(s sessionCred, auth string, lastseen string, done func([]streamed) bool, maxWait time.Duration, accepted chan struct{}) ([]streamed, int) {
	ctx, cancel := context.WithCancel(context.Background())
	defer cancel()
	req := httptest.NewRequest("GET", "/robustirc/v1/"+s.Id+"/messages?lastseen="+lastseen, nil).WithContext(ctx)
	if auth != "" {
		req.Header.Set("X-Session-Auth", auth)
	}
	w := &streamWriter{hdr: http.Header{}, notify: make(chan struct{}, 1), accepted: accepted}
	finished := make(chan struct{})
	go func() {
		defer close(finished)
		n.h.DispatchPublic(w, req)
		if accepted != nil {
			w.acceptedOnce.Do(func() { close(accepted) })
		}
	}()
	timeout := time.After(maxWait)
loop:
	for {
		if done != nil && done(parseStream(w.lines())) {
			break
		}
		select {
		case <-w.notify:
		case <-finished:
			break loop
		case <-timeout:
			break loop
		case <-time.After(20 * time.Millisecond):
		}
	}
	cancel()
	select {
	case <-finished:
	case <-time.After(5 * time.Second):
	}
	if o := outputStream; o != nil {
		o.InterruptGetNext()
		time.Sleep(5 * time.Millisecond)
	}
	w.mu.Lock()
	code := w.code
	w.mu.Unlock()
	return parseStream(w.lines()), code
}

// readAll reads the whole stream of a session: it posts nothing, but waits until the
// stream has been quiet for a moment after the expected last id showed up.
func (n *inode) readAll(s sessionCred, untilId uint64) []streamed {
	// the newest batch that has a message for this session ends the read
	target := uint64(0)
	first, _ := ircStore.FirstIndex()
	for idx := node.LastIndex(); idx >= 1 && idx >= first && target == 0; idx-- {
		if msgs, ok := outputStream.Get(robust.Id{Id: robust.IdFromRaftIndex(idx)}); ok {
			for _, m := range msgs {
				if m.InterestingFor[s.Num] {
					target = robust.IdFromRaftIndex(idx)
				}
			}
		}
	}
	if target == 0 {
		return nil
	}
	msgs, _ := n.readStream(s, s.Auth, "0.0", func(m []streamed) bool {
		return len(m) > 0 && m[len(m)-1].Id.Id >= target
	}, 3*time.Second)
	return msgs
}

func newNodeDir(base string, k int) string {
	d := filepath.Join(base, fmt.Sprintf("node%d", k))
	os.MkdirAll(d, 0755)
	return d
}

const zeroCooloffConfig = "SessionExpiration = \"10m0s\"\nPostMessageCooloff = \"0s\"\n[IRC]\n[[IRC.Operators]]\nName = \"op\"\nPassword = \"pw\"\n[[IRC.Services]]\nPassword = \"mypass\"\n"

// nodeRestore is a user-triggered restore of a snapshot on the running leader.
func nodeRestore(meta *raft.SnapshotMeta, rc io.Reader) error {
	return node.Restore(meta, rc, 10*time.Second)
}
