package main

// C05 (unit a): acknowledged messages survive restarts, snapshots and restores
// of a single in-process node, exactly once and in posting order, with
// concurrent clients that retry according to the protocol.

import (
	"encoding/json"

	"fmt"
	"github.com/golang/protobuf/proto"
	"github.com/hashicorp/raft"
	"github.com/robustirc/robustirc/internal/robust"
	"os"
	"strings"
	"sync"
	"sync/atomic"
	"testing"
	"time"

	"pgregory.net/rapid"
	"verif.local/verif/vh"
)

type c05Fault struct {
	Kind    string `json:"fault"` // snapshot | restart | restore | pause
	AfterMs int    `json:"after_ms"`
}

type c05Case struct {
	Clients  int        `json:"clients"`
	Messages int        `json:"messages_per_client"`
	Faults   []c05Fault `json:"faults"`
	// PingEvery > 0: every PingEvery-th message of a client is a PING (answered to the sender only)
	PingEvery int `json:"ping_every,omitempty"`
	// ResendEvery > 0: after every ResendEvery-th acknowledgement the client behaves as if the
	// response had been lost and posts the same line with the same client message id again
	ResendEvery int `json:"resend_every,omitempty"`
	// JSON: the node runs with -pre1.0_protobuf=false
	JSON bool `json:"json_encoding,omitempty"`
	// ReconnectEvery > 0: after every ReconnectEvery-th message a client opens a new session (new
	// nickname) and goes on with that one, as a client does after it lost its session
	ReconnectEvery int `json:"reconnect_every,omitempty"`
	// SkewEvery > 0: every SkewEvery-th message is first committed with a timestamp 300ms behind
	// this node's clock (what a leader with a slower clock writes before it loses leadership; the
	// acknowledgement never reaches the client), then the client repeats it here with the same id
	SkewEvery int `json:"skew_every,omitempty"`
}

type c05Client struct {
	cred    sessionCred
	name    string
	acked   []string
	unacked []string // sent, outcome unknown
	gone    bool
	// every session the client used, in order, and which one sent which text
	creds    []sessionCred
	sentWith map[string]int
}

var c05Counter int

// c05Horizon returns the timestamp of the command entry |back| entries before the newest one.
func c05Horizon(n *inode, back uint64) (int64, bool) {
	last, err := n.logStore.LastIndex()
	if err != nil || last <= back+1 {
		return 0, false
	}
	for idx := last - back; idx >= 1; idx-- {
		var l raft.Log
		if err := n.logStore.GetLog(idx, &l); err != nil || l.Type != raft.LogCommand {
			continue
		}
		m := robust.NewMessageFromBytes(l.Data, robust.IdFromRaftIndex(l.Index))
		if m.UnixNano > 0 {
			return m.UnixNano, true
		}
	}
	return 0, false
}

// c05Timestamps maps the unique text of every client line in the durable raft log to the
// timestamp of its (first) entry.
func c05Timestamps(n *inode) map[string]int64 {
	out := map[string]int64{}
	first, err := n.logStore.FirstIndex()
	if err != nil || first == 0 {
		return out
	}
	last, _ := n.logStore.LastIndex()
	for idx := first; idx <= last; idx++ {
		var l raft.Log
		if err := n.logStore.GetLog(idx, &l); err != nil || l.Type != raft.LogCommand {
			continue
		}
		m := robust.NewMessageFromBytes(l.Data, robust.IdFromRaftIndex(l.Index))
		if m.Type != robust.IRCFromClient {
			continue
		}
		f := strings.Fields(m.Data)
		if len(f) == 0 {
			continue
		}
		text := strings.TrimPrefix(f[len(f)-1], ":")
		if _, seen := out[text]; !seen {
			out[text] = m.UnixNano
		}
	}
	return out
}

func c05Execute(c *c05Case, base string) (fail *vh.Failure, labels []string, nontrivial bool) {
	c05Counter++
	dir := newNodeDir(base, c05Counter)
	defer os.RemoveAll(dir)
	nodeJSON = c.JSON
	defer func() { nodeJSON = false }()
	n, err := startNode(dir, true)
	if err != nil {
		return vh.Failf("harness", "start: %v", err), nil, false
	}
	var cur atomic.Value // *inode
	cur.Store(n)
	defer func() { cur.Load().(*inode).stop() }()
	if code, body := n.setConfig(zeroCooloffConfig); code != 200 {
		return vh.Failf("harness", "config: %d %s", code, body), nil, false
	}
	lab := map[string]bool{}
	isPing := func(name, text string) bool {
		var n int
		if _, err := fmt.Sscanf(strings.TrimPrefix(text, name+"-"), "%d", &n); err != nil {
			return false
		}
		return c.PingEvery > 0 && n%c.PingEvery == c.PingEvery-1
	}
	cmid := uint64(1000)
	var cmidMu sync.Mutex
	next := func() uint64 { cmidMu.Lock(); defer cmidMu.Unlock(); cmid++; return cmid }
	mk := func(nick string) (sessionCred, *vh.Failure) {
		cred, code := n.createSession()
		if code != 200 {
			return cred, vh.Failf("harness", "create: %d", code)
		}
		for _, l := range []string{"NICK " + nick, "USER " + nick + " 0 * :r", "JOIN #c"} {
			if code := n.post(cred, l, next()); code != 200 {
				return cred, vh.Failf("harness", "register %q: %d", l, code)
			}
		}
		return cred, nil
	}
	observer, f := mk("observer")
	if f != nil {
		return f, nil, false
	}
	var clients []*c05Client
	for k := 0; k < c.Clients; k++ {
		cred, f := mk(fmt.Sprintf("s%d", k))
		if f != nil {
			return f, nil, false
		}
		clients = append(clients, &c05Client{cred: cred, name: fmt.Sprintf("s%d", k), creds: []sessionCred{cred}, sentWith: map[string]int{}})
	}
	var inFlightDuringFault, resent, reconnects, skewed int32
	var horizons []int64
	var faultActive int32
	var wg sync.WaitGroup
	deadline := time.Now().Add(40 * time.Second)
	for _, cl := range clients {
		wg.Add(1)
		cl := cl
		go func() {
			defer wg.Done()
			for seq := 0; seq < c.Messages && time.Now().Before(deadline); seq++ {
				text := fmt.Sprintf("%s-%d", cl.name, seq)
				id := next()
				line := "PRIVMSG #c :" + text
				if c.PingEvery > 0 && seq%c.PingEvery == c.PingEvery-1 {
					line = "PING " + text
				}
				if c.SkewEvery > 0 && seq%c.SkewEvery == c.SkewEvery-1 {
					m := &robust.Message{Type: robust.IRCFromClient, Session: robust.Id{Id: cl.cred.Num}, Data: line, ClientMessageId: id,
						UnixNano: time.Now().Add(-300 * time.Millisecond).UnixNano(), RemoteAddr: "192.0.2.1:4711"}
					var mb []byte
					if c.JSON {
						mb, _ = json.Marshal(m)
					} else if pb, err := proto.Marshal(m.ProtoMessage()); err == nil {
						mb = append([]byte{'p'}, pb...)
					}
					if mb != nil {
						done := make(chan struct{})
						go func() {
							defer close(done)
							if fut := cur.Load().(*inode).raft.Apply(mb, 2*time.Second); fut.Error() == nil {
								atomic.AddInt32(&skewed, 1)
							}
						}()
						select {
						case <-done:
						case <-time.After(2 * time.Second):
						}
					}
				}
				// the bridge's protocol: one message in flight, retry the SAME client message id until acknowledged
				for time.Now().Before(deadline) {
					node := cur.Load().(*inode)
					if atomic.LoadInt32(&faultActive) == 1 {
						atomic.StoreInt32(&inFlightDuringFault, 1)
					}
					// a request that is in flight when its node goes down is a broken connection to the
					// client (an in-process raft that shuts down may never answer a pending apply)
					res := make(chan int, 1)
					go func() { res <- node.post(cl.cred, line, id) }()
					code := 0
					select {
					case code = <-res:
					case <-time.After(2 * time.Second):
						code = 599
					}
					if code == 200 {
						cl.acked = append(cl.acked, text)
						cl.sentWith[text] = len(cl.creds) - 1
						if c.ResendEvery > 0 && seq%c.ResendEvery == 0 {
							// the acknowledgement got lost on the way: the bridge repeats the request
							res2 := make(chan int, 1)
							go func() { res2 <- cur.Load().(*inode).post(cl.cred, line, id) }()
							select {
							case <-res2:
							case <-time.After(2 * time.Second):
							}
							atomic.AddInt32(&resent, 1)
						}
						break
					}
					if code == 404 {
						cl.gone = true
						cl.unacked = append(cl.unacked, text)
						return
					}
					time.Sleep(3 * time.Millisecond)
				}
				time.Sleep(time.Millisecond)
				if c.ReconnectEvery > 0 && seq%c.ReconnectEvery == c.ReconnectEvery-1 {
					// the client lost its session (or so it thinks) and opens a new one
					var cred sessionCred
					ok := false
					for try := 0; try < 400 && !ok && time.Now().Before(deadline); try++ {
						res := make(chan int, 1)
						go func() {
							var code int
							cred, code = cur.Load().(*inode).createSession()
							res <- code
						}()
						select {
						case code := <-res:
							ok = code == 200
						case <-time.After(2 * time.Second):
						}
						if !ok {
							time.Sleep(3 * time.Millisecond)
						}
					}
					if !ok {
						return
					}
					nick := fmt.Sprintf("%sr%d", cl.name, seq)
					for _, l := range []string{"NICK " + nick, "USER " + nick + " 0 * :r", "JOIN #c"} {
						lid := next()
						acked := false
						for !acked && time.Now().Before(deadline) {
							res := make(chan int, 1)
							go func() { res <- cur.Load().(*inode).post(cred, l, lid) }()
							select {
							case code := <-res:
								acked = code == 200
							case <-time.After(2 * time.Second):
							}
							if !acked {
								time.Sleep(3 * time.Millisecond)
							}
						}
						if !acked {
							return
						}
					}
					cl.cred = cred
					cl.creds = append(cl.creds, cred)
					atomic.AddInt32(&reconnects, 1)
				}
			}
		}()
	}
	// the fault schedule
	for _, ft := range c.Faults {
		time.Sleep(time.Duration(ft.AfterMs) * time.Millisecond)
		node := cur.Load().(*inode)
		atomic.StoreInt32(&faultActive, 1)
		switch ft.Kind {
		case "snapshot":
			node.snapshot()
			lab["c05:snapshot"] = true
		case "snapshot-fold":
			// a snapshot whose compaction horizon lies inside the history: everything up to a recent
			// entry is folded into the snapshot state, the rest is retained verbatim
			if h, ok := c05Horizon(node, uint64(ft.AfterMs%7)); ok {
				*canaryCompactionStart = h + int64(10*time.Minute+expireSessionsInterval)
				node.snapshot()
				*canaryCompactionStart = 0
				horizons = append(horizons, h)
				lab["c05:snapshot-with-horizon-inside-history"] = true
			} else {
				node.snapshot()
				lab["c05:snapshot"] = true
			}
		case "restart":
			nn, err := node.restart()
			if err != nil {
				atomic.StoreInt32(&faultActive, 0)
				wg.Wait()
				return vh.Failf("harness", "restart: %v", err), keys2(lab), false
			}
			cur.Store(nn)
			lab["c05:restart"] = true
			if snaps, _ := nn.fss.List(); len(snaps) > 0 {
				lab["c05:restart-restored-from-snapshot"] = true
				nontrivial = true
			}
		case "restore":
			// (not generated: a user-triggered raft restore rolls the cluster back to the snapshot by
			// design, which is an operator action and not a crash or fail-over)
			if snaps, err := node.fss.List(); err == nil && len(snaps) > 0 {
				if meta, rc, err := node.fss.Open(snaps[0].ID); err == nil {
					// a user-triggered restore: the leader installs the snapshot as its new state
					nodeRestore(meta, rc)
					rc.Close()
					lab["c05:raft-restore"] = true
				}
			}
		case "pause":
		}
		atomic.StoreInt32(&faultActive, 0)
	}
	wg.Wait()
	if atomic.LoadInt32(&inFlightDuringFault) == 1 {
		lab["c05:post-in-flight-during-fault"] = true
		if lab["c05:restart"] {
			nontrivial = true
		}
	}
	// healing: a sentinel message, then read the observer's stream from the start
	node := cur.Load().(*inode)
	sentinel := fmt.Sprintf("sentinel-%d", next())
	ok := false
	for k := 0; k < 200 && !ok; k++ {
		if len(clients) > 0 && !clients[0].gone {
			ok = node.post(clients[0].cred, "PRIVMSG #c :"+sentinel, next()) == 200
		} else {
			break
		}
	}
	// a second sentinel from the observer: the sender of the first one does not receive it
	sentinel2 := fmt.Sprintf("sentinel-%d", next())
	for k := 0; k < 200; k++ {
		if node.post(observer, "PRIVMSG #c :"+sentinel2, next()) == 200 {
			break
		}
	}
	ended := func(m []streamed) bool {
		for _, x := range m {
			if strings.Contains(x.Data, sentinel) || strings.Contains(x.Data, sentinel2) {
				return true
			}
		}
		return false
	}
	if atomic.LoadInt32(&reconnects) > 0 {
		lab["c05:client-opened-a-new-session-mid-run"] = true
	}
	if c.JSON {
		lab["c05:json-encoding"] = true
	}
	if atomic.LoadInt32(&skewed) > 0 {
		lab["c05:entry-committed-with-earlier-timestamp-then-repeated"] = true
	}
	if atomic.LoadInt32(&resent) > 0 {
		lab["c05:acknowledged-post-repeated-with-same-id"] = true
	}
	// Output of entries that a snapshot folded into its state is gone by design (it is older than
	// any session may be idle); everything newer than every horizon used in this case is retained
	// and must be delivered.
	maxH := int64(0)
	for _, h := range horizons {
		if h > maxH {
			maxH = h
		}
	}
	stamps := map[string]int64{}
	if maxH > 0 {
		stamps = c05Timestamps(node)
	}
	mustDeliver := func(text string) bool {
		if maxH == 0 {
			return true
		}
		ts, ok := stamps[text]
		return ok && ts > maxH
	}
	// PINGs are answered to the sender only: every sender's own stream
	for _, cl := range clients {
		if c.PingEvery == 0 || cl.gone {
			continue
		}
		pongs := map[string]int{}
		complete := true
		for _, cred := range cl.creds {
			own, code := node.readStream(cred, cred.Auth, "0.0", ended, 3*time.Second)
			if code != 200 {
				return vh.Failf("sender-stream-refused", "GET messages for %s (session %s) answered %d after the schedule", cl.name, cred.Id, code), keys2(lab), true
			}
			if !ended(own) {
				complete = false
			}
			for _, m := range own {
				f := strings.Fields(m.Data)
				if len(f) >= 3 && f[1] == "PONG" {
					pongs[strings.TrimPrefix(f[len(f)-1], ":")]++
				}
			}
		}
		if !complete {
			continue // inconclusive for this sender
		}
		lab["c05:pings"] = true
		for _, t := range cl.acked {
			if !isPing(cl.name, t) {
				continue
			}
			if pongs[t] > 1 || (pongs[t] == 0 && mustDeliver(t)) {
				return vh.Failf("acknowledged-ping-not-answered-exactly-once", "PING %q of %s was acknowledged with HTTP 200 and is answered %d times in the sender's stream after the faults %+v (resend_every=%d)", t, cl.name, pongs[t], c.Faults, c.ResendEvery), keys2(lab), true
			}
		}
	}
	msgs, code := node.readStream(observer, observer.Auth, "0.0", func(m []streamed) bool {
		for _, x := range m {
			if strings.Contains(x.Data, sentinel) {
				return true
			}
		}
		return false
	}, 3*time.Second)
	if code != 200 {
		return vh.Failf("observer-stream-refused", "GET messages for the observer answered %d after the schedule", code), keys2(lab), true
	}
	count := map[string]int{}
	order := map[string][]string{}
	for _, m := range msgs {
		k := strings.Index(m.Data, " PRIVMSG #c ")
		if k < 0 {
			continue
		}
		text := strings.TrimPrefix(m.Data[k+len(" PRIVMSG #c "):], ":")
		count[text]++
		who := strings.SplitN(text, "-", 2)[0]
		order[who] = append(order[who], text)
	}
	for _, cl := range clients {
		for _, t := range cl.acked {
			if isPing(cl.name, t) {
				continue // a PING: judged in the sender's stream above
			}
			if count[t] > 1 || (count[t] == 0 && mustDeliver(t)) {
				return vh.Failf("acknowledged-message-not-exactly-once", "message %q was acknowledged with HTTP 200 but is delivered %d times after the faults %+v", t, count[t], c.Faults), keys2(lab), true
			}
		}
		for _, t := range cl.unacked {
			if count[t] > 1 {
				return vh.Failf("unacknowledged-message-duplicated", "message %q (never acknowledged) is delivered %d times", t, count[t]), keys2(lab), true
			}
		}
		// posting order
		pos := 0
		seq := order[cl.name]
		for _, t := range cl.acked {
			if isPing(cl.name, t) || (count[t] == 0 && !mustDeliver(t)) {
				continue
			}
			for pos < len(seq) && seq[pos] != t {
				pos++
			}
			if pos == len(seq) {
				return vh.Failf("order-changed", "messages of %s are delivered in the order %v, posted (acknowledged) in the order %v", cl.name, seq, cl.acked), keys2(lab), true
			}
		}
	}
	// a replica that replays the durable log delivers the same sequence to the observer
	return nil, keys2(lab), nontrivial
}

func TestVerifC05(t *testing.T) {
	quiet()
	rec := vh.New("C05", "TestVerifC05")
	defer rec.Flush()
	base, err := os.MkdirTemp("", "c05-")
	if err != nil {
		t.Fatal(err)
	}
	defer os.RemoveAll(base)
	if vh.Replaying() {
		for _, ff := range vh.ReplayFiles("C05", "TestVerifC05") {
			var c c05Case
			if err := json.Unmarshal(ff.Case, &c); err != nil {
				t.Fatalf("bad replay case: %v", err)
			}
			if f, _, _ := c05Execute(&c, base); f != nil && f.Signature != "harness" && !rec.Known(f.Signature) {
				rec.WriteFail(f, &c)
				t.Fatalf("%v", f)
			}
		}
		return
	}
	rapid.Check(t, func(rt *rapid.T) {
		c := &c05Case{Clients: rapid.IntRange(2, 4).Draw(rt, "clients"), Messages: rapid.IntRange(5, 40).Draw(rt, "messages"),
			PingEvery: rapid.SampledFrom([]int{0, 2, 3, 5}).Draw(rt, "pingevery"), ResendEvery: rapid.SampledFrom([]int{0, 1, 3, 4}).Draw(rt, "resendevery"),
			SkewEvery: rapid.SampledFrom([]int{0, 0, 3, 6}).Draw(rt, "skewevery"),
			JSON:      rapid.IntRange(0, 3).Draw(rt, "json") == 0, ReconnectEvery: rapid.SampledFrom([]int{0, 0, 2, 4, 7}).Draw(rt, "reconnectevery")}
		nf := rapid.IntRange(1, 5).Draw(rt, "nfaults")
		for k := 0; k < nf; k++ {
			c.Faults = append(c.Faults, c05Fault{
				Kind:    rapid.SampledFrom([]string{"snapshot", "snapshot-fold", "restart", "restart", "pause"}).Draw(rt, "fault"),
				AfterMs: rapid.IntRange(0, 40).Draw(rt, "afterms"),
			})
		}
		f, labels, nt := c05Execute(c, base)
		rec.Case(vh.Fingerprint(c), nt, labels, func() interface{} { return c })
		if f != nil {
			if f.Signature == "harness" {
				rt.Skip(f.Message)
			}
			if rec.Known(f.Signature) {
				return
			}
			rec.WriteFail(f, c)
			rt.Fatalf("%v", f)
		}
	})
}
