package timesafeguard

// C19: soundness of the start-up time check over generated measurements.
// Overlaid into internal/timesafeguard at check time (see DESIGN.md 2.1).

import (
	"encoding/json"
	"io"
	"log"
	"strings"
	"testing"
	"time"

	"pgregory.net/rapid"
	"verif.local/verif/vh"
)

type c19Peer struct {
	OffsetNs int64 `json:"offset_ns"` // true (peer clock - local clock)
	D1Ns     int64 `json:"request_delay_ns"`
	D2Ns     int64 `json:"response_delay_ns"`
	Silent   bool  `json:"silent"`
}

type c19Case struct {
	Peers    []c19Peer `json:"peers"`
	Disabled bool      `json:"disable_timesafeguard"`
	T0       int64     `json:"t0_unix_ns"`
}

func c19Results(c c19Case, withSilent bool) []timeResult {
	var rs []timeResult
	t0 := time.Unix(0, c.T0)
	for _, p := range c.Peers {
		start := t0
		end := t0.Add(time.Duration(p.D1Ns + p.D2Ns))
		if p.Silent {
			if withSilent {
				rs = append(rs, timeResult{Start: start, End: end})
			}
			continue
		}
		rs = append(rs, timeResult{Start: start, End: end, Result: t0.Add(time.Duration(p.D1Ns + p.OffsetNs))})
	}
	return rs
}

func abs64(x int64) int64 {
	if x < 0 {
		return -x
	}
	return x
}

func c19Check(c c19Case) *vh.Failure {
	old := *DisableTimesafeguard
	defer func() { *DisableTimesafeguard = old }()
	*DisableTimesafeguard = c.Disabled
	all := c19Results(c, true)
	err := synchronizedWithNetwork(all)
	if c.Disabled {
		if err != nil {
			return vh.Failf("disabled-but-refused", "safeguard disabled but the node refuses: %v", err)
		}
		return nil
	}
	limit := int64(ElectionTimeout)
	if err == nil {
		for _, p := range c.Peers {
			if !p.Silent && abs64(p.OffsetNs) >= limit {
				return vh.Failf("accepted-unsound", "accepted although an answering peer's true offset is %v (|offset| >= %v); measurement d1=%v d2=%v", time.Duration(p.OffsetNs), ElectionTimeout, time.Duration(p.D1Ns), time.Duration(p.D2Ns))
			}
		}
	} else {
		// every answering peer whose measurement cannot prove |offset| < 2s even under the
		// tightest sound rule (offset in [Result-End, Result-Start]) must be named.
		for idx, r := range c19Results(c, false) {
			lo := int64(r.Result.Sub(r.End))
			hi := int64(r.Result.Sub(r.Start))
			if lo <= -limit || hi >= limit {
				if !strings.Contains(err.Error(), r.String()) {
					return vh.Failf("offender-not-reported", "refused, but answering peer #%d (possible offsets [%v,%v]) is not named in the error %q", idx, time.Duration(lo), time.Duration(hi), err.Error())
				}
			}
		}
	}
	// metamorphic: silent peers neither help nor hurt
	err2 := synchronizedWithNetwork(c19Results(c, false))
	if (err == nil) != (err2 == nil) {
		return vh.Failf("silent-peer-changes-decision", "decision with silent peers: %v; without: %v", err, err2)
	}
	return nil
}

func c19Nontrivial(c c19Case) bool {
	for _, p := range c.Peers {
		if p.Silent {
			continue
		}
		if a := abs64(p.OffsetNs); a >= int64(time.Second) && a <= int64(3*time.Second) {
			return true
		}
		if p.D1Ns+p.D2Ns > int64(time.Second) {
			return true
		}
	}
	return false
}

var c19Offset = rapid.OneOf(
	rapid.SampledFrom([]int64{0, 1, -1, int64(2 * time.Second), -int64(2 * time.Second), int64(2*time.Second) - 1, -int64(2*time.Second) + 1, int64(2*time.Second) + 1, -int64(2*time.Second) - 1}),
	rapid.Int64Range(-int64(3*time.Second), int64(3*time.Second)),
	rapid.Int64Range(-int64(3*time.Second), int64(3*time.Second)),
	rapid.Int64Range(-int64(5*time.Millisecond), int64(5*time.Millisecond)),
	rapid.Int64Range(-int64(3*time.Hour), int64(3*time.Hour)),
	rapid.Int64Range(-int64(10*time.Second), int64(10*time.Second)),
)

var c19Delay = rapid.OneOf(
	rapid.Just(int64(0)),
	rapid.Just(int64(0)),
	rapid.Int64Range(0, int64(20*time.Millisecond)),
	rapid.Int64Range(0, int64(2500*time.Millisecond)),
	rapid.Int64Range(0, int64(10*time.Second)),
)

func c19Gen(t *rapid.T) c19Case {
	n := rapid.IntRange(0, 6).Draw(t, "peers")
	c := c19Case{T0: rapid.Int64Range(1400000000e9, 1900000000e9).Draw(t, "t0")}
	c.Disabled = rapid.IntRange(0, 9).Draw(t, "disabled") == 0
	for k := 0; k < n; k++ {
		p := c19Peer{
			OffsetNs: c19Offset.Draw(t, "offset"),
			D1Ns:     c19Delay.Draw(t, "d1"),
			D2Ns:     c19Delay.Draw(t, "d2"),
			Silent:   rapid.IntRange(0, 5).Draw(t, "silent") == 0,
		}
		// a peer whose clock was reset (dead RTC battery) answers with a time at or near the UNIX
		// epoch or another firmware default: it did answer, and it is decades off
		if rapid.IntRange(0, 19).Draw(t, "resetclock") == 0 {
			abs := rapid.SampledFrom([]int64{0, 999999999, 1000000000, -1, -3600e9, 315532800e9, 946684800e9, 86400e9}).Draw(t, "resetto")
			p.OffsetNs = abs - (c.T0 + p.D1Ns)
		}
		c.Peers = append(c.Peers, p)
	}
	return c
}

func TestVerifC19(t *testing.T) {
	log.SetOutput(io.Discard)
	rec := vh.New("C19", "TestVerifC19")
	defer rec.Flush()
	if vh.Replaying() {
		for _, ff := range vh.ReplayFiles("C19", "TestVerifC19") {
			var c c19Case
			if err := json.Unmarshal(ff.Case, &c); err != nil {
				t.Fatalf("bad replay case: %v", err)
			}
			if f := c19Check(c); f != nil && !rec.Known(f.Signature) {
				rec.WriteFail(f, c)
				t.Fatalf("%v", f)
			}
		}
		return
	}
	rapid.Check(t, func(rt *rapid.T) {
		c := c19Gen(rt)
		var labels []string
		answering := 0
		for _, p := range c.Peers {
			if !p.Silent {
				answering++
			}
		}
		if answering == 0 {
			labels = append(labels, "no-answering-peer")
		}
		if c.Disabled {
			labels = append(labels, "disabled")
		}
		old := *DisableTimesafeguard
		*DisableTimesafeguard = false
		if synchronizedWithNetwork(c19Results(c, true)) == nil {
			labels = append(labels, "accepted")
		} else {
			labels = append(labels, "refused")
		}
		*DisableTimesafeguard = old
		rec.Case(vh.Fingerprint(c), c19Nontrivial(c), labels, func() interface{} { return c })
		if f := c19Check(c); f != nil {
			if rec.Known(f.Signature) {
				return
			}
			rec.WriteFail(f, c)
			rt.Fatalf("%v", f)
		}
	})
}
