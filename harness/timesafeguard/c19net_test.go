package timesafeguard

// C19 (unit network): the exported entry points of the start-up time check
// (SynchronizedWithNetwork for a restart, SynchronizedWithMasterAndNetwork for
// -join) against generated peer sets served by real TLS status servers in
// this process: peers answer with a generated clock offset after generated
// delays, or do not answer in one of several ways (nothing listens, HTTP 500,
// a body that is not JSON, a status without a time). This covers the part of
// the statement the measurement-level unit cannot see: how measurements are
// collected, that peers which did not answer are ignored *and nothing else*,
// and that the own address and the join target are handled.
//
// Real time is involved, so the offsets keep a wide margin around the 2 s
// limit: in-sync peers are within +-400 ms (a measurement would have to take
// more than 0.8 s to refuse them; such a case is counted as inconclusive, not
// reported), offending peers are off by at least 4 s.

import (
	"encoding/json"
	"encoding/pem"
	"flag"
	"fmt"
	"io"
	"log"
	"net/http"
	"net/http/httptest"
	"os"
	"path/filepath"
	"strings"
	"sync"
	"sync/atomic"
	"testing"
	"time"

	"github.com/robustirc/internal/health"
	"pgregory.net/rapid"
	"verif.local/verif/vh"
)

type c19NetPeer struct {
	// Kind: insync | off | refused | http500 | garbage | notime
	Kind     string `json:"kind"`
	OffsetMs int64  `json:"offset_ms"`
	D1Ms     int    `json:"delay_before_ms"`
	D2Ms     int    `json:"delay_after_ms"`
}

type c19NetCase struct {
	Join     bool         `json:"join_path"`
	JoinOff  int64        `json:"join_target_offset_ms"`
	Peers    []c19NetPeer `json:"peers"`
	SelfIn   bool         `json:"own_address_in_peer_list"`
	Disabled bool         `json:"disable_timesafeguard"`
}

// c19Served counts, per server, the status answers (HTTP 200 with a time) it has given.
var c19Served sync.Map // *httptest.Server address -> *int32

func c19Server(p c19NetPeer, peers func() []string) *httptest.Server {
	var requests, served int32
	srv := httptest.NewTLSServer(http.HandlerFunc(func(w http.ResponseWriter, r *http.Request) {
		time.Sleep(time.Duration(p.D1Ms) * time.Millisecond)
		if p.Kind == "flaky-off" && atomic.AddInt32(&requests, 1) == 1 {
			// restarting: the first request fails; whoever asks again gets an answer, from a clock
			// that is off by more than the limit
			http.Error(w, "starting up", http.StatusServiceUnavailable)
			return
		}
		if p.Kind != "http500" && p.Kind != "garbage" && p.Kind != "notime" {
			defer atomic.AddInt32(&served, 1)
		}
		switch p.Kind {
		case "http500":
			http.Error(w, "no", http.StatusInternalServerError)
			return
		case "garbage":
			w.Header().Set("Content-Type", "application/json")
			io.WriteString(w, "<html>this is not JSON</html>")
			return
		}
		st := health.ServerStatus{State: "Follower"}
		if p.Kind != "notime" {
			st.CurrentTime = time.Now().Add(time.Duration(p.OffsetMs) * time.Millisecond)
		}
		if peers != nil {
			st.Peers = peers()
		}
		b, _ := json.Marshal(&st)
		time.Sleep(time.Duration(p.D2Ms) * time.Millisecond)
		w.Header().Set("Content-Type", "application/json")
		w.Write(b)
	}))
	c19Served.Store(srv.URL, &served)
	return srv
}

func c19AnsweredCount(srv *httptest.Server) int32 {
	if v, ok := c19Served.Load(srv.URL); ok {
		return atomic.LoadInt32(v.(*int32))
	}
	return 0
}

// c19DeadAddr is an address on which nothing listens (connection refused). It must not be a port
// from the ephemeral range: the shards of this check run as parallel processes, and a port that was
// free a moment ago may be handed to a status server of another shard (seen once: the "silent"
// peer answered with the clock of somebody else's off-by-an-hour peer).
func c19DeadAddr(k int) string {
	return fmt.Sprintf("127.0.0.1:%d", 2+k%20)
}

// The check computes |Result-Start| + (End-Start) <= |offset| + 2*RTT for a peer. With in-sync
// peers within 400ms a refusal is legitimate only when a round trip took more than 800ms; the whole
// collection (all peers in parallel) taking at most 700ms rules that out.
const c19Slow = 700 * time.Millisecond

var c19CertSet bool

func c19Trust(dir string, srv *httptest.Server) error {
	if c19CertSet {
		return nil
	}
	fn := filepath.Join(dir, "cert.pem")
	b := pem.EncodeToMemory(&pem.Block{Type: "CERTIFICATE", Bytes: srv.Certificate().Raw})
	if err := os.WriteFile(fn, b, 0600); err != nil {
		return err
	}
	c19CertSet = true
	return flag.Set("tls_ca_file", fn)
}

func c19NetExecute(c c19NetCase, dir string) (fail *vh.Failure, inconclusive bool) {
	old := *DisableTimesafeguard
	defer func() { *DisableTimesafeguard = old }()
	*DisableTimesafeguard = c.Disabled
	const self = "127.0.0.1:1"
	var addrs []string
	var servers []*httptest.Server
	defer func() {
		for _, s := range servers {
			s.Close()
		}
	}()
	offenders := 0
	var flaky []*httptest.Server
	for k, p := range c.Peers {
		if p.Kind == "refused" {
			addrs = append(addrs, c19DeadAddr(k))
			continue
		}
		s := c19Server(p, nil)
		servers = append(servers, s)
		addrs = append(addrs, strings.TrimPrefix(s.URL, "https://"))
		if p.Kind == "off" {
			offenders++
		}
		if p.Kind == "flaky-off" {
			flaky = append(flaky, s)
		}
	}
	list := append([]string{}, addrs...)
	if c.SelfIn {
		list = append([]string{self}, list...)
	}
	var err error
	t0 := time.Now()
	if c.Join {
		var master *httptest.Server
		kind := "insync"
		if c.JoinOff > 400 || c.JoinOff < -400 {
			kind = "off"
			offenders++
		}
		master = c19Server(c19NetPeer{Kind: kind, OffsetMs: c.JoinOff}, func() []string {
			return append([]string{strings.TrimPrefix(master.URL, "https://")}, list...)
		})
		servers = append(servers, master)
		if e := c19Trust(dir, master); e != nil {
			return vh.Failf("harness", "cert: %v", e), false
		}
		err = SynchronizedWithMasterAndNetwork(self, strings.TrimPrefix(master.URL, "https://"), "pw")
	} else {
		if len(servers) > 0 {
			if e := c19Trust(dir, servers[0]); e != nil {
				return vh.Failf("harness", "cert: %v", e), false
			}
		}
		err = SynchronizedWithNetwork(self, list, "pw")
	}
	took := time.Since(t0)
	// a peer that failed the first request is "a peer that did not answer" unless it was asked again
	// and answered: then it is a peer that answered, with a clock that is off
	for k, srv := range flaky {
		if c19AnsweredCount(srv) > 0 {
			offenders++
			_ = k
		}
	}
	if c.Disabled {
		if err != nil {
			return vh.Failf("net:disabled-but-refused", "safeguard disabled but the node refuses: %v", err), false
		}
		return nil, false
	}
	if offenders > 0 && err == nil {
		return vh.Failf("net:accepted-unsound", "the node is allowed to join although %d answering peer(s) are off by >= 4s; peers %+v (join path %v, join target offset %dms)", offenders, c.Peers, c.Join, c.JoinOff), false
	}
	if offenders == 0 && err != nil {
		if took > c19Slow {
			// a measurement that slow can legitimately fail to prove |offset| < 2s
			return nil, true
		}
		return vh.Failf("net:refused-although-in-sync", "refused although every answering peer is within 400ms and the whole check took %v: %v", took, err), false
	}
	if err != nil && took <= c19Slow {
		// the offending peers are reported: one "Local: ..., Remote: ..." item each
		if n := strings.Count(err.Error(), "Remote: "); n != offenders {
			return vh.Failf("net:offenders-misreported", "%d answering peers are off by >= 4s, the error names %d: %v", offenders, n, err), false
		}
	}
	return nil, false
}

func min2(x int) int {
	if x > 2 {
		return 2
	}
	return x
}

func TestVerifC19Network(t *testing.T) {
	log.SetOutput(io.Discard)
	rec := vh.New("C19", "TestVerifC19Network")
	defer rec.Flush()
	dir, err := os.MkdirTemp("", "c19n-")
	if err != nil {
		t.Fatal(err)
	}
	defer os.RemoveAll(dir)
	// all httptest servers present the same certificate; trust it before the first request is made
	probe := httptest.NewTLSServer(http.NotFoundHandler())
	if err := c19Trust(dir, probe); err != nil {
		t.Fatal(err)
	}
	probe.Close()
	if vh.Replaying() {
		for _, ff := range vh.ReplayFiles("C19", "TestVerifC19Network") {
			var c c19NetCase
			if err := json.Unmarshal(ff.Case, &c); err != nil {
				t.Fatalf("bad replay case: %v", err)
			}
			if f, _ := c19NetExecute(c, dir); f != nil && f.Signature != "harness" && !rec.Known(f.Signature) {
				rec.WriteFail(f, c)
				t.Fatalf("%v", f)
			}
		}
		return
	}
	rapid.Check(t, func(rt *rapid.T) {
		c := c19NetCase{
			Join:     rapid.Bool().Draw(rt, "join"),
			SelfIn:   rapid.Bool().Draw(rt, "selfin"),
			Disabled: rapid.IntRange(0, 9).Draw(rt, "disabled") == 0,
		}
		if c.Join {
			c.JoinOff = rapid.SampledFrom([]int64{0, 0, 0, 100, -300, 5000, -3600000}).Draw(rt, "joinoff")
		}
		n := rapid.IntRange(0, 5).Draw(rt, "npeers")
		silent, answering, off := 0, 0, 0
		for k := 0; k < n; k++ {
			p := c19NetPeer{Kind: rapid.SampledFrom([]string{"insync", "insync", "insync", "off", "refused", "refused", "http500", "garbage", "notime", "flaky-off"}).Draw(rt, "kind")}
			switch p.Kind {
			case "insync":
				p.OffsetMs = rapid.Int64Range(-400, 400).Draw(rt, "offset")
				answering++
			case "off":
				p.OffsetMs = rapid.SampledFrom([]int64{4000, -4000, 3600000, -3600000, 30000, -7000}).Draw(rt, "offoffset")
				answering++
				off++
			case "flaky-off":
				// close to the limit: an implementation that asks again must still measure soundly
				p.OffsetMs = rapid.SampledFrom([]int64{2600, -2600, 2900, -2900, 5000}).Draw(rt, "flakyoffset")
				silent++
			default:
				silent++
			}
			p.D1Ms = rapid.SampledFrom([]int{0, 0, 0, 5, 20, 60}).Draw(rt, "d1")
			p.D2Ms = rapid.SampledFrom([]int{0, 0, 0, 5, 20, 60}).Draw(rt, "d2")
			c.Peers = append(c.Peers, p)
		}
		labels := []string{fmt.Sprintf("c19net:silent=%d", min2(silent)), fmt.Sprintf("c19net:offenders=%d", min2(off))}
		if c.Join {
			labels = append(labels, "c19net:join-path")
		}
		if silent > 0 && off > 0 {
			labels = append(labels, "c19net:offender-beside-silent-peer")
		}
		f, inc := c19NetExecute(c, dir)
		if inc {
			rec.Label("c19net:inconclusive-slow-measurement")
		}
		rec.Case(vh.Fingerprint(c), silent > 0 && answering > 0, labels, func() interface{} { return c })
		if f != nil {
			if f.Signature == "harness" {
				rt.Skip(f.Message)
			}
			if rec.Known(f.Signature) {
				return
			}
			rec.WriteFail(f, c)
			rt.Fatalf("%v", f)
		}
	})
}
