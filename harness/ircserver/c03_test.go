package ircserver

// C03: Marshal + Unmarshal into a fresh instance is invisible: equal state at
// every cut point, equal API-visible configuration, and identical output under
// the continuation of the history from a generated cut point.

import (
	"fmt"
	"sort"
	"strings"
	"testing"

	"pgregory.net/rapid"
	"verif.local/verif/ircgen"
	"verif.local/verif/vh"
)

func configProbes(i *IRCServer) map[string]string {
	p := map[string]string{}
	for _, o := range []string{"https://web.example", "https://evil.example", ""} {
		p["OriginWhitelisted("+o+")"] = fmt.Sprint(i.OriginWhitelisted(o))
	}
	for _, h := range []string{"bridgesecret", "nope", ""} {
		p["TrustedBridge("+h+")"] = i.TrustedBridge(h)
	}
	for _, a := range []string{"10.0.0.1", "10.0.0.2", "10.0.0.3", "2001:db8::1", ""} {
		p["Banned("+a+")"] = i.Banned(a)
	}
	p["SessionLimit"] = fmt.Sprint(i.SessionLimit())
	p["ChannelLimit"] = fmt.Sprint(i.ChannelLimit())
	p["captchaConfigured"] = fmt.Sprint(i.captchaConfigured())
	p["captchaRequiredForLogin"] = fmt.Sprint(i.captchaRequiredForLogin())
	p["SessionExpiration"] = i.Config.SessionExpiration.String()
	p["PostMessageCooloff"] = i.Config.PostMessageCooloff.String()
	p["Revision"] = fmt.Sprint(i.Config.Revision)
	for id := range i.sessions {
		if id.Reply == 0 {
			p[fmt.Sprintf("LastPostMessage(%d)", id.Id)] = fmt.Sprint(i.LastPostMessage(id))
			a, _ := i.GetAuth(id)
			p[fmt.Sprintf("GetAuth(%d)", id.Id)] = a
		}
	}
	return p
}

type c03Oracle struct {
	rec      *vh.Recorder
	cut      int
	b        *IRCServer
	special  map[string]bool
	contRepl int
}

func (o *c03Oracle) begin(i *IRCServer, c *hcase, rt *rapid.T) {
	o.cut = param(c, rt, "cut_after_entry", 0, 45)
	o.special = map[string]bool{}
}

func (o *c03Oracle) pre(i *IRCServer, idx int, e ircgen.Entry) {}

func (o *c03Oracle) specials(i *IRCServer) {
	pseudo := map[uint64]int{}
	for id, s := range i.sessions {
		switch {
		case s.Nick == "":
			o.special["cut:nickless-session"] = true
		case !s.loggedIn && !s.Server && id.Reply == 0:
			o.special["cut:nick-but-not-logged-in"] = true
		}
		if s.Operator {
			o.special["cut:operator"] = true
		}
		if id.Reply != 0 {
			pseudo[id.Id]++
		}
		if len(s.invitedTo) > 0 {
			o.special["cut:invited-session"] = true
		}
		if s.AwayMsg != "" {
			o.special["cut:away"] = true
		}
		if !s.LastSolvedCaptcha.IsZero() {
			o.special["cut:solved-captcha"] = true
		}
	}
	for _, n := range pseudo {
		if n >= 2 {
			o.special["cut:services-with-2+-pseudoclients"] = true
		}
	}
	for _, c := range i.channels {
		if c.key != "" {
			o.special["cut:keyed-channel"] = true
		}
		if len(c.bans) > 0 {
			o.special["cut:banned-channel"] = true
		}
		if c.modes['x'] {
			o.special["cut:+x-channel"] = true
		}
		if c.modes['i'] {
			o.special["cut:+i-channel"] = true
		}
		if c.topic != "" {
			o.special["cut:topic"] = true
		}
	}
	if len(i.svsholds) > 0 {
		o.special["cut:svshold"] = true
	}
	if i.Config.MaxChannels > 0 || i.Config.MaxSessions > 0 || len(i.Config.Banned) > 0 || i.Config.CaptchaURL != "" || len(i.Config.TrustedBridges) > 0 || len(i.Config.WhitelistedOrigins) > 0 {
		o.special["cut:non-default-config"] = true
	}
}

func (o *c03Oracle) post(i *IRCServer, idx int, e ircgen.Entry, outs []out, pan string) *vh.Failure {
	if pan != "" {
		return nil
	}
	// (2) differential continuation
	if o.b != nil {
		outs2, pan2 := applyEntry(o.b, e)
		if pan2 != "" {
			return vh.Failf("panic-on-restored-instance", "entry #%d %q panicked on the restored instance only: %s", idx, e.Data, pan2)
		}
		if len(outs) > 0 {
			o.contRepl++
		}
		if d := sameOuts(outs, outs2); d != "" {
			sig := "continuation-differs/after:" + entryClass(e)
			if !o.rec.Known(sig) {
				return vh.Failf(sig, "cut after entry #%d; continuation entry #%d (%s) %q: never-serialized vs restored instance: %s", o.cut, idx, e.Kind, e.Data, d)
			}
		}
	}
	// (1) state equality at every cut point, (3) API-visible configuration
	r, err := roundTrip(i)
	if err != nil {
		return vh.Failf("roundtrip-error", "Marshal/Unmarshal after entry #%d failed: %v", idx, err)
	}
	if diff := diffDumps(dumpServer(i), dumpServer(r), 6); len(diff) > 0 {
		var unknown []string
		for _, d := range diff {
			sig := "state-differs:" + genericPath(strings.SplitN(d, ": ", 2)[0])
			if !o.rec.Known(sig) {
				unknown = append(unknown, d)
			}
		}
		if len(unknown) > 0 {
			sig := "state-differs:" + genericPath(strings.SplitN(unknown[0], ": ", 2)[0])
			return vh.Failf(sig, "state after entry #%d (%s %q) vs its Marshal/Unmarshal image (original vs restored): %s", idx, e.Kind, e.Data, strings.Join(unknown, "; "))
		}
	}
	pa, pb := configProbes(i), configProbes(r)
	var keys []string
	for k := range pa {
		keys = append(keys, k)
	}
	sort.Strings(keys)
	for _, k := range keys {
		if pa[k] != pb[k] {
			name := k
			if j := strings.Index(name, "("); j >= 0 {
				name = name[:j]
			}
			sig := "probe-differs:" + name
			if o.rec.Known(sig) {
				continue
			}
			return vh.Failf(sig, "after entry #%d: %s = %q on the original, %q after Marshal/Unmarshal", idx, k, pa[k], pb[k])
		}
	}
	if idx == o.cut {
		o.b = r
		o.specials(i)
	}
	return nil
}

func (o *c03Oracle) end(i *IRCServer) *vh.Failure {
	if o.b == nil {
		return nil
	}
	if diff := diffDumps(dumpServer(i), dumpServer(o.b), 6); len(diff) > 0 {
		var unknown []string
		for _, d := range diff {
			if !o.rec.Known("state-differs:" + genericPath(strings.SplitN(d, ": ", 2)[0])) {
				unknown = append(unknown, d)
			}
		}
		if len(unknown) > 0 {
			sig := "final-state-differs:" + genericPath(strings.SplitN(unknown[0], ": ", 2)[0])
			if !o.rec.Known(sig) {
				return vh.Failf(sig, "cut after entry #%d; final state of never-serialized vs restored instance: %s", o.cut, strings.Join(unknown, "; "))
			}
		}
	}
	return nil
}

func (o *c03Oracle) nontrivial() (bool, []string) {
	var l []string
	for k := range o.special {
		l = append(l, k)
	}
	return o.b != nil && len(o.special) > 0 && o.contRepl > 0, l
}

func TestVerifC03(t *testing.T) {
	standardTest(t, "C03", "TestVerifC03", runOpts{minLen: 8, maxLen: 80, captchaSometimes: true, gen: ircgen.Options{Bias: "serialize", WithMoD: true, OmitDurations: true}},
		func(rec *vh.Recorder) oracle { return &c03Oracle{rec: rec} })
}
