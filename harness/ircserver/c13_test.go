package ircserver

// C13: every change of privileged state is authorised by the pre-state.
// The harness snapshots the privileged state before and after every entry and
// demands, for each difference, the predicate the statement gives.

import (
	"crypto/hmac"
	"crypto/sha256"
	"encoding/base64"
	"fmt"
	"regexp"
	"sort"
	"strconv"
	"strings"
	"testing"
	"time"

	"gopkg.in/sorcix/irc.v2"
	"pgregory.net/rapid"
	"verif.local/verif/ircgen"
	"verif.local/verif/vh"
)

type privChan struct {
	name    string
	modes   string
	key     string
	bans    []string // pattern
	banRes  []string // regexp sources
	ops     map[string]bool
	members map[string]bool
	topic   string
}

type privSess struct {
	key        string
	id, reply  uint64
	nick, user string
	oper       bool
	server     bool
	loggedIn   bool
	invited    map[string]bool
	pass       string
	remote     string
	lastSolved time.Time
}

type privSnap struct {
	chans  map[string]*privChan
	sess   map[string]*privSess
	banned map[string]string
	opers  [][2]string
	svcPw  []string
	secret []byte
}

func takePriv(i *IRCServer) *privSnap {
	p := &privSnap{chans: map[string]*privChan{}, sess: map[string]*privSess{}, banned: map[string]string{}}
	for id, s := range i.sessions {
		ps := &privSess{key: memberKey(id.Id, id.Reply, s.Nick), id: id.Id, reply: id.Reply, nick: s.Nick, user: s.Username, oper: s.Operator, server: s.Server, loggedIn: s.loggedIn, invited: map[string]bool{}, pass: s.Pass, remote: s.RemoteAddr, lastSolved: s.LastSolvedCaptcha}
		for c, v := range s.invitedTo {
			if v {
				ps.invited[string(c)] = true
			}
		}
		p.sess[ps.key] = ps
	}
	for name, c := range i.channels {
		pc := &privChan{name: c.name, key: c.key, ops: map[string]bool{}, members: map[string]bool{}}
		for m := 'A'; m < 'z'; m++ {
			if c.modes[m] {
				pc.modes += string(m)
			}
		}
		for _, b := range c.bans {
			pc.bans = append(pc.bans, b.pattern)
			pc.banRes = append(pc.banRes, b.re.String())
		}
		for n, perms := range c.nicks {
			k := "?:" + string(n)
			if s, ok := i.nicks[n]; ok {
				k = memberKey(s.Id.Id, s.Id.Reply, s.Nick)
			}
			pc.members[k] = true
			if perms != nil && perms[chanop] {
				pc.ops[k] = true
			}
		}
		pc.topic = fmt.Sprintf("%q by %q at %d", c.topic, c.topicNick, c.topicTime.UnixNano())
		if c.topicTime.IsZero() {
			pc.topic = fmt.Sprintf("%q by %q at zero", c.topic, c.topicNick)
		}
		p.chans[string(name)] = pc
	}
	for k, v := range i.Config.Banned {
		p.banned[k] = v
	}
	for _, o := range i.Config.IRC.Operators {
		p.opers = append(p.opers, [2]string{o.Name, o.Password})
	}
	for _, s := range i.Config.IRC.Services {
		p.svcPw = append(p.svcPw, s.Password)
	}
	p.secret = append([]byte(nil), i.Config.CaptchaHMACSecret...)
	return p
}

// independent captcha verification (statement: valid MAC under the network secret, "okay:" purpose, <= 5 minutes old)
func c13TokenValid(secret []byte, token string, now time.Time) bool {
	parts := strings.Split(token, ".")
	if len(parts) != 3 {
		return false
	}
	var dec [3][]byte
	for k, p := range parts {
		b, err := base64.StdEncoding.DecodeString(p)
		if err != nil {
			return false
		}
		dec[k] = b
	}
	purpose := string(dec[0])
	if !strings.HasPrefix(purpose, "okay:") {
		return false
	}
	mac := hmac.New(sha256.New, secret)
	mac.Write(dec[0])
	mac.Write(dec[1])
	if !hmac.Equal(mac.Sum(nil), dec[2]) {
		return false
	}
	pp := strings.Split(purpose, ":")
	if len(pp) != 4 {
		return false
	}
	ts, err := strconv.ParseInt(pp[2], 10, 64)
	if err != nil {
		return false
	}
	return now.Sub(time.Unix(0, ts)) <= 5*time.Minute
}

// passOperCandidates re-states the documented PASS format: colon separated
// "<kind>=<value>" parts, where a part without a known kind continues the
// previous value (passwords may contain colons); the oper value is "<name> <password>".
func passOperCandidates(pass string) [][2]string {
	known := []string{"nickserv=", "services=", "network=", "session=", "oper=", "captcha="}
	extracted := ""
	for _, part := range strings.Split(pass, ":") {
		if strings.HasPrefix(strings.ToLower(part), "oper=") {
			extracted = part[len("oper="):]
		}
		isKnown := false
		for _, k := range known {
			if strings.HasPrefix(part, k) {
				isKnown = true
			}
		}
		if !isKnown && extracted != "" {
			extracted += ":" + part
		}
	}
	if extracted == "" {
		return nil
	}
	if m := irc.ParseMessage("OPER " + extracted); m != nil && len(m.Params) >= 2 {
		return [][2]string{{m.Params[0], m.Params[1]}}
	}
	return nil
}

type c13Oracle struct {
	// restoreEvery > 0: after every restoreEvery-th entry the instance is replaced by what a node
	// that restores a snapshot holds (Marshal + Unmarshal); the property holds in those states too
	restoreEvery int
	restores     int

	rec     *vh.Recorder
	preP    *privSnap
	classes map[string]bool
	events  int
	invites map[string]map[string]bool // session key -> lower-case channel -> invitation seen, not used, channel alive
	// bans is the oracle's own reading of every ban mask it saw being set: lower-case channel ->
	// mask -> regexp sources (the mask with * as wildcard, and, for a mask that ends in a session
	// reference robust/0x<id>, the same with the remote address that session had at that moment)
	bans map[string]map[string][]string
}

func (o *c13Oracle) begin(i *IRCServer, c *hcase, rt *rapid.T) {
	o.classes = map[string]bool{}
	o.invites = map[string]map[string]bool{}
	o.bans = map[string]map[string][]string{}
	o.restoreEvery = param(c, rt, "restore_every", 0, 12)
	if o.restoreEvery == 1 {
		o.restoreEvery = 0
	}
}

func (o *c13Oracle) pre(i *IRCServer, idx int, e ircgen.Entry) { o.preP = takePriv(i) }

func (o *c13Oracle) note(cls string) {
	o.events++
	if !o.classes[cls] {
		o.classes[cls] = true
		o.rec.Label("c13:" + cls)
	}
}

// post judges the entry and then advances the oracle's own record of invitations.
//
// An invitation belongs to the channel it was issued for: it is used up by the join it admits
// and it ends with the channel (a channel of the same name created later by somebody else is
// another channel). The implementation keeps its own table (Session.invitedTo); the record here
// is driven by what was observed (an invitation appearing, a join, a channel or session going
// away), so an invitation that outlives its channel or its use is seen at the next JOIN.
func (o *c13Oracle) post(i *IRCServer, idx int, e ircgen.Entry, outs []out, pan string) *vh.Failure {
	if pan != "" {
		return nil
	}
	pre, post := o.preP, takePriv(i)
	f := o.judge(pre, post, idx, e, outs)
	if o.invites == nil {
		o.invites = map[string]map[string]bool{}
	}
	for k, inv := range o.invites {
		if post.sess[k] == nil {
			delete(o.invites, k)
			continue
		}
		for cn := range inv {
			if pre.chans[cn] != nil && post.chans[cn] == nil {
				delete(inv, cn) // the channel is gone
			}
		}
	}
	// ban masks appearing and disappearing
	for cn := range o.bans {
		if post.chans[cn] == nil {
			delete(o.bans, cn)
		}
	}
	for cn, qc := range post.chans {
		have := map[string]bool{}
		for _, m := range qc.bans {
			have[m] = true
		}
		for m := range o.bans[cn] {
			if !have[m] {
				delete(o.bans[cn], m)
			}
		}
		before := map[string]bool{}
		if pc := pre.chans[cn]; pc != nil {
			for _, m := range pc.bans {
				before[m] = true
			}
		}
		for m := range have {
			if before[m] || e.Kind != "irc" {
				continue
			}
			actor := pre.sess[fmt.Sprintf("c:%d", e.Session)]
			if actor == nil || actor.server {
				continue // bans set by services: not modelled
			}
			src := strings.Replace(regexp.QuoteMeta(m), "\\*", ".*", -1)
			res := []string{src}
			if k := strings.Index(m, "robust/0x"); k >= 0 {
				if id, err := strconv.ParseUint(m[k+len("robust/0x"):], 16, 64); err == nil {
					if ref := pre.sess[fmt.Sprintf("c:%d", id)]; ref != nil {
						addr := ref.remote
						if id == e.Session && e.Addr != "" {
							addr = e.Addr
						}
						if addr != "" {
							res = append(res, strings.Replace(regexp.QuoteMeta(m[:k]), "\\*", ".*", -1)+regexp.QuoteMeta(addr))
						}
					}
				}
			}
			if o.bans[cn] == nil {
				o.bans[cn] = map[string][]string{}
			}
			o.bans[cn][m] = res
		}
	}
	for k, ps := range post.sess {
		p0 := pre.sess[k]
		for cn := range ps.invited {
			if p0 == nil || !p0.invited[cn] {
				if o.invites[k] == nil {
					o.invites[k] = map[string]bool{}
				}
				o.invites[k][cn] = true
			}
		}
		if p0 != nil {
			for cn := range p0.invited {
				if !ps.invited[cn] && o.invites[k] != nil {
					delete(o.invites[k], cn) // the implementation dropped it (used, or cleared)
				}
			}
		}
		// used: the session became a member of a restricted channel by its own JOIN. A session that
		// services put into the channel (SVSJOIN) has not used its invitation: it still holds it,
		// unused, when it is kicked and comes back (false alarm at seed 1 once services links became
		// more frequent in the histories: the oracle had voided the invitation on any way of becoming
		// a member)
		own := e.Kind == "irc" && k == fmt.Sprintf("c:%d", e.Session)
		for cn, qc := range post.chans {
			pc := pre.chans[cn]
			if own && pc != nil && qc.members[k] && !pc.members[k] && (strings.Contains(pc.modes, "i") || strings.Contains(pc.modes, "x")) && o.invites[k] != nil {
				delete(o.invites[k], cn)
			}
		}
	}
	return f
}

func (o *c13Oracle) judge(pre, post *privSnap, idx int, e ircgen.Entry, outs []out) *vh.Failure {
	if e.Kind == "config" || e.Kind == "create" || e.Kind == "mod" {
		return nil
	}
	actorKey := fmt.Sprintf("c:%d", e.Session)
	actor := pre.sess[actorKey]
	if actor == nil {
		return nil // entry for a session that does not exist: nothing may change, checked below via diff with nil actor
	}
	var line *irc.Message
	if e.Kind == "irc" {
		line = irc.ParseMessage(e.Data)
	} else {
		line = irc.ParseMessage("QUIT :" + e.Data)
	}
	cmd := ""
	if line != nil {
		cmd = strings.ToUpper(line.Command)
	}
	svc := actor.server
	standing := "user"
	switch {
	case svc:
		standing = "services"
	case actor.oper:
		standing = "oper"
	case !actor.loggedIn:
		standing = "unregistered"
	}
	fail := func(sig, format string, a ...interface{}) *vh.Failure {
		sig = sig + "/by:" + entryClass(e)
		if o.rec.Known(sig) {
			return nil
		}
		return vh.Failf(sig, "entry #%d (%s by session %d, %s) %q: %s", idx, e.Kind, e.Session, standing, e.Data, fmt.Sprintf(format, a...))
	}
	now := time.Unix(0, e.Nano)

	// refused attempts count as non-trivial events too
	for _, ot := range outs {
		switch outCommand(ot) {
		case "481", "482", "473", "474", "475", "464":
			o.note("refused-" + outCommand(ot) + "/" + standing)
		}
	}

	// sessions that ended
	endedKeys := map[string]bool{}
	for k := range pre.sess {
		if _, ok := post.sess[k]; !ok {
			endedKeys[k] = true
		}
	}
	// (b) another session ended
	var keys []string
	for k := range endedKeys {
		keys = append(keys, k)
	}
	sort.Strings(keys)
	for _, k := range keys {
		x := pre.sess[k]
		if k == actorKey {
			continue
		}
		if x.reply != 0 && (x.id == actor.id || endedKeys[fmt.Sprintf("c:%d", x.id)]) {
			continue // pseudo-client of the acting / ending services link
		}
		o.note("session-ended-by-other/" + standing)
		if !actor.oper && !svc {
			if f := fail("unprivileged-kill", "session %s (%q) was ended by a session that is neither IRC operator nor services", k, x.nick); f != nil {
				return f
			}
		}
	}
	// (f) operator status
	for k, ps := range post.sess {
		if !ps.oper {
			continue
		}
		if p0, ok := pre.sess[k]; ok && p0.oper {
			continue
		}
		o.note("became-operator/" + standing)
		ok := false
		if k == actorKey {
			var cands [][2]string
			if cmd == "OPER" && len(line.Params) >= 2 {
				cands = append(cands, [2]string{line.Params[0], line.Params[1]})
			}
			cands = append(cands, passOperCandidates(actor.pass)...)
			if cmd == "PASS" && len(line.Params) > 0 {
				cands = append(cands, passOperCandidates(strings.Join(line.Params, " "))...)
			}
			for _, c := range cands {
				for _, op := range pre.opers {
					if op == c {
						ok = true
					}
				}
			}
		}
		if !ok {
			if f := fail("operator-without-credentials", "session %s became IRC operator without presenting a configured operator name/password (configured: %d operators)", k, len(pre.opers)); f != nil {
				return f
			}
		}
	}
	// (g) services status
	for k, ps := range post.sess {
		if !ps.server {
			continue
		}
		if p0, ok := pre.sess[k]; ok && p0.server {
			continue
		}
		o.note("became-services/" + standing)
		ok := false
		if k == actorKey && cmd == "SERVER" {
			for _, pw := range pre.svcPw {
				if actor.pass == "services="+pw {
					ok = true
				}
			}
		}
		if !ok {
			if f := fail("services-without-password", "session %s became a services link without a configured services password (PASS was %q)", k, actor.pass); f != nil {
				return f
			}
		}
	}
	// (h) network bans
	if fmt.Sprint(pre.banned) != fmt.Sprint(post.banned) {
		o.note("gline/" + standing)
		if !actor.oper {
			if f := fail("gline-without-oper", "the network ban list changed from %v to %v but the actor is not an IRC operator", pre.banned, post.banned); f != nil {
				return f
			}
		}
	}
	// (l) network-wide notices
	for _, ot := range outs {
		m := irc.ParseMessage(ot.Data)
		if m != nil && (m.Command == "PRIVMSG" || m.Command == "NOTICE") && len(m.Params) > 0 && strings.HasPrefix(m.Params[0], "$") && m.Prefix != nil && strings.HasPrefix(m.Prefix.Host, "robust/") {
			o.note("network-wide-notice/" + standing)
			if !actor.oper {
				if f := fail("network-notice-without-oper", "line %q was broadcast although the sender is not an IRC operator", ot.Data); f != nil {
					return f
				}
			}
		}
	}
	// channel-level differences
	var cnames []string
	for c := range pre.chans {
		cnames = append(cnames, c)
	}
	sort.Strings(cnames)
	for _, cn := range cnames {
		pc := pre.chans[cn]
		qc, exists := post.chans[cn]
		actorMember := pc.members[actorKey]
		actorOp := pc.ops[actorKey]
		// (a) members removed
		for mk := range pc.members {
			if exists && qc.members[mk] {
				continue
			}
			if mk == actorKey || endedKeys[mk] {
				continue
			}
			o.note("member-removed-by-other/" + standing)
			if !actorOp && !svc {
				if f := fail("kick-without-chanop", "member %s was removed from %s by a session that is not channel operator there", mk, pc.name); f != nil {
					return f
				}
			}
		}
		if !exists {
			continue
		}
		// (c) modes, key, bans, operator status
		changed := ""
		if pc.modes != qc.modes {
			changed = fmt.Sprintf("modes %q -> %q", pc.modes, qc.modes)
		} else if pc.key != qc.key {
			changed = fmt.Sprintf("key %q -> %q", pc.key, qc.key)
		} else if fmt.Sprint(pc.bans) != fmt.Sprint(qc.bans) {
			changed = fmt.Sprintf("bans %q -> %q", pc.bans, qc.bans)
		} else {
			for mk := range pc.members {
				if qc.members[mk] && pc.ops[mk] != qc.ops[mk] {
					changed = fmt.Sprintf("operator status of %s %v -> %v", mk, pc.ops[mk], qc.ops[mk])
				}
			}
		}
		if changed != "" {
			o.note("channel-mode-change/" + standing)
			if !actorOp && !actor.oper && !svc {
				if f := fail("mode-without-chanop", "%s: %s, but the actor is neither channel operator there nor IRC operator", pc.name, changed); f != nil {
					return f
				}
			}
		}
		// (d) topic
		if pc.topic != qc.topic {
			o.note("topic-change/" + standing + tmode(pc.modes))
			if !svc {
				if !actorMember {
					if f := fail("topic-by-non-member", "topic of %s changed (%s -> %s) by a session that is not on the channel", pc.name, pc.topic, qc.topic); f != nil {
						return f
					}
				} else if strings.Contains(pc.modes, "t") && !actorOp {
					if f := fail("topic-without-chanop", "topic of +t channel %s changed by a member without channel operator status", pc.name); f != nil {
						return f
					}
				}
			}
		}
		// (i)/(j) members gained in an existing channel
		for mk := range qc.members {
			if pc.members[mk] {
				continue
			}
			if mk != actorKey {
				o.note("joined-by-other/" + standing)
				if !svc {
					if f := fail("forced-join-without-services", "%s became a member of %s through somebody else's command", mk, pc.name); f != nil {
						return f
					}
				}
				continue
			}
			if svc {
				continue
			}
			// a channel that existed before the entry has its operators: joining it never makes one
			if qc.ops[mk] {
				if f := fail("chanop-by-joining-existing-channel", "session %s joined the existing channel %s and is channel operator there without ever being given +o", mk, pc.name); f != nil {
					return f
				}
			}
			restr := ""
			for _, r := range "ikx" {
				if strings.ContainsRune(pc.modes, r) {
					restr += string(r)
				}
			}
			if len(pc.bans) > 0 {
				restr += "b"
			}
			o.note("join-existing/" + restr)
			// which key did the JOIN supply for this channel?
			var supplied []string
			if cmd == "JOIN" && len(line.Params) > 0 {
				var ks []string
				if len(line.Params) > 1 {
					ks = strings.Split(line.Params[1], ",")
				}
				for ci, cname := range strings.Split(line.Params[0], ",") {
					if strings.ToLower(cname) == cn {
						k := ""
						if ci < len(ks) {
							k = ks[ci]
						}
						supplied = append(supplied, k)
					}
				}
			} else {
				if f := fail("join-without-join", "session became a member of %s by a command other than JOIN", pc.name); f != nil {
					return f
				}
				continue
			}
			// invited: the implementation says so AND the invitation is one this oracle saw being
			// issued for the channel as it exists now and not used since
			invited := actor.invited[cn] && o.invites[actorKey][cn]
			if actor.invited[cn] && !o.invites[actorKey][cn] {
				o.note("join-with-invitation-the-oracle-considers-void")
			}
			isX := strings.Contains(pc.modes, "x")
			isI := strings.Contains(pc.modes, "i")
			isK := strings.Contains(pc.modes, "k")
			captchaOK := false
			if isX && !invited {
				for _, k := range supplied {
					if c13TokenValid(pre.secret, k, now) {
						captchaOK = true
					}
				}
				if !actor.lastSolved.IsZero() && now.Sub(actor.lastSolved) < time.Minute {
					captchaOK = true // documented grace period after a solved captcha
				}
				// the grace period also starts inside one JOIN: a valid captcha accepted for an
				// earlier +x channel of the same target list covers the later ones
				if len(line.Params) > 1 {
					ks := strings.Split(line.Params[1], ",")
					for cj, cname := range strings.Split(line.Params[0], ",") {
						lc := strings.ToLower(cname)
						if lc == cn {
							break
						}
						ec, eq := pre.chans[lc], post.chans[lc]
						if ec == nil || eq == nil || cj >= len(ks) {
							continue
						}
						if strings.Contains(ec.modes, "x") && !strings.Contains(ec.modes, "i") && !actor.invited[lc] && eq.members[actorKey] && c13TokenValid(pre.secret, ks[cj], now) {
							captchaOK = true
						}
					}
				}
			}
			// bans (anchored matching of the stored expressions: a subset of what the server matches)
			remote := actor.remote
			if e.Addr != "" {
				remote = e.Addr
			}
			uh := actor.nick + "!" + actor.user + "@robust/0x" + strconv.FormatUint(actor.id, 16)
			uhAddr := actor.nick + "!" + actor.user + "@" + remote
			for bi, src := range pc.banRes {
				re, err := regexp.Compile("^(?:" + src + ")$")
				if err != nil {
					continue
				}
				if re.MatchString(uh) || re.MatchString(uhAddr) {
					sig := "join-despite-ban"
					if captchaOK {
						sig = "join-despite-ban-via-captcha"
					}
					if f := fail(sig, "joined %s although ban %q matches %s / %s", pc.name, pc.bans[bi], uh, uhAddr); f != nil {
						return f
					}
					break
				}
			}
			// ... and of the oracle's own reading of the masks
			for m, srcs := range o.bans[cn] {
				hit := false
				for _, src := range srcs {
					if re, err := regexp.Compile("^(?:" + src + ")$"); err == nil && (re.MatchString(uh) || re.MatchString(uhAddr)) {
						hit = true
					}
				}
				if hit {
					if f := fail("join-despite-ban-mask", "joined %s although the ban mask %q, set while its session reference resolved to %q, matches %s / %s", pc.name, m, srcs, uh, uhAddr); f != nil {
						return f
					}
					break
				}
			}
			if isI && !invited {
				if f := fail("join-invite-only-without-invitation", "joined +i channel %s without an invitation", pc.name); f != nil {
					return f
				}
			}
			if isX && !isI && !invited && !captchaOK {
				if f := fail("join-captcha-channel-without-captcha", "joined +x channel %s without invitation and without a valid captcha (keys supplied: %q)", pc.name, supplied); f != nil {
					return f
				}
			}
			if isK && !(isX && captchaOK) {
				okKey := false
				for _, k := range supplied {
					if k == pc.key {
						okKey = true
					}
				}
				if !okKey {
					if f := fail("join-without-key", "joined +k channel %s (key %q) with keys %q", pc.name, pc.key, supplied); f != nil {
						return f
					}
				}
			}
			if (isI || isX) && post.sess[actorKey] != nil && post.sess[actorKey].invited[cn] {
				if f := fail("invitation-not-consumed", "the invitation to %s is still there after it was used", pc.name); f != nil {
					return f
				}
			}
		}
	}
	// (e) invitations gained
	for k, ps := range post.sess {
		p0 := pre.sess[k]
		for cn := range ps.invited {
			if p0 != nil && p0.invited[cn] {
				continue
			}
			o.note("invited/" + standing)
			if svc {
				continue
			}
			pc := pre.chans[cn]
			if pc == nil || !pc.members[actorKey] {
				if f := fail("invite-by-non-member", "session %s was invited to %s by a session that is not on that channel", k, cn); f != nil {
					return f
				}
			} else if strings.Contains(pc.modes, "i") && !pc.ops[actorKey] {
				if f := fail("invite-without-chanop", "session %s was invited to +i channel %s by a member without channel operator status", k, pc.name); f != nil {
					return f
				}
			}
		}
	}
	return nil
}

func tmode(modes string) string {
	if strings.Contains(modes, "t") {
		return "/+t"
	}
	return "/-t"
}

func (o *c13Oracle) replace(i *IRCServer, idx int) (*IRCServer, *vh.Failure) {
	if o.restoreEvery == 0 || (idx+1)%o.restoreEvery != 0 {
		return i, nil
	}
	b, err := roundTrip(i)
	if err != nil {
		return i, nil // serialization errors are C03's subject
	}
	o.restores++
	return b, nil
}

func (o *c13Oracle) end(i *IRCServer) *vh.Failure { return nil }

func (o *c13Oracle) nontrivial() (bool, []string) {
	o.rec.Count("privileged_events", int64(o.events))
	return o.events >= 3, nil
}

func TestVerifC13(t *testing.T) {
	standardTest(t, "C13", "TestVerifC13", runOpts{minLen: 10, maxLen: 100, captcha: true, gen: ircgen.Options{Bias: "privilege"}},
		func(rec *vh.Recorder) oracle { return &c13Oracle{rec: rec} })
}
