package ircserver

// C06, thorough tier: coverage-guided native fuzzing of whole client histories.
//
// The fuzz input is decoded into records (one per '\n' separated chunk):
//
//	<op><sel><text>
//
// op 'c' creates a session, 'd' ends session sel, 'm' applies text as a message
// of death of session sel, 't' advances the clock by six minutes; every other
// op byte sends text as an IRC line from session sel. Sessions are selected
// modulo the number of sessions created so far. The records run on top of a
// fixed base world (registered users, a channel operator, an IRC operator, a
// nick-only and a fresh session, a banned and an away user, restricted
// channels and a services link with two pseudo-clients), through the same call
// sequence as FSM.applyRobustMessage with recover().
//
// Domain (sound by construction): text is what the HTTP API can put into an
// entry: valid UTF-8 (encoding/json replaces invalid bytes), cut at the first
// CR, LF or NUL, at most 2000 bytes. Lines are never sent from a session that
// is a services link at that moment (the base link, or a client that
// authenticated as one), because C06 covers only protocol-conforming lines
// from services and the fuzzer's text is not.

import (
	"encoding/json"
	"strings"
	"testing"
	"time"

	"verif.local/verif/ircgen"
	"verif.local/verif/vh"
)

const c06BaseNano = int64(1420070400) * int64(time.Second)

type c06FuzzCase struct {
	Input   string         `json:"input"`
	Entries []ircgen.Entry `json:"entries_after_base"`
}

// c06Base builds the base world and returns the ids of the selectable sessions.
func c06Base() (*IRCServer, []uint64, uint64, int64) {
	cfg := ircgen.DefaultConfig()
	i := newServer(cfg.TOML, time.Unix(0, c06BaseNano))
	id := uint64(0)
	nano := c06BaseNano
	apply := func(kind string, session uint64, data string) uint64 {
		id++
		nano += int64(time.Millisecond)
		e := ircgen.Entry{Kind: kind, Id: id, Session: session, Data: data, Nano: nano, Addr: "10.0.0.1:1234", CMID: id}
		if _, pan := applyEntry(i, e); pan != "" {
			panic("base world: " + data + ": " + pan)
		}
		return id
	}
	var sess []uint64
	for k := 0; k < 9; k++ {
		sess = append(sess, apply("create", 0, "authauthauthauth"))
	}
	reg := func(s uint64, nick string) {
		apply("irc", s, "NICK "+nick)
		apply("irc", s, "USER "+nick+" 0 * :"+nick)
	}
	reg(sess[0], "alice")
	reg(sess[1], "bob")
	reg(sess[2], "carol")
	reg(sess[3], "dave")
	apply("irc", sess[4], "NICK erin") // nick only, not logged in
	// sess[5]: nothing sent yet
	reg(sess[6], "frank")
	reg(sess[7], "gina")
	apply("irc", sess[0], "JOIN #a")
	apply("irc", sess[1], "JOIN #a")
	apply("irc", sess[0], "MODE #a +t")
	apply("irc", sess[0], "TOPIC #a :the topic")
	apply("irc", sess[0], "MODE #a +b frank!*@*")
	apply("irc", sess[2], "OPER op pw")
	apply("irc", sess[2], "JOIN #b")
	apply("irc", sess[2], "MODE #b +i")
	apply("irc", sess[2], "INVITE dave #b")
	apply("irc", sess[1], "JOIN #k")
	apply("irc", sess[1], "MODE #k +k sesame")
	apply("irc", sess[7], "JOIN #a")
	apply("irc", sess[7], "AWAY :gone fishing")
	// services link with two pseudo-clients, one of them in a channel
	link := sess[8]
	apply("irc", link, "PASS :services=mypass")
	apply("irc", link, "SERVER services.robustirc.net 1 :Services for IRC Networks")
	apply("irc", link, "NICK ChanServ 1 1422134861 services localhost.net services.localhost.net 0 :Channel Services")
	apply("irc", link, "NICK NickServ 1 1422134861 services localhost.net services.localhost.net 0 :Nickname Services")
	apply("irc", link, ":ChanServ JOIN #a")
	return i, sess[:8], id, nano
}

func c06Text(b []byte) string {
	s := string(b)
	if k := strings.IndexAny(s, "\r\x00"); k >= 0 {
		s = s[:k]
	}
	s = strings.ToValidUTF8(s, "�")
	if len(s) > 2000 {
		s = strings.ToValidUTF8(s[:2000], "")
	}
	return s
}

// c06FuzzRun decodes and executes one input. It returns the entries it applied.
func c06FuzzRun(rec *vh.Recorder, data []byte) (c *c06FuzzCase, f *vh.Failure, reached int, classes map[string]bool) {
	return fuzzHistory(rec, data, nil)
}

// fuzzHistory is shared with the C15 target, which judges every reply in addition.
func fuzzHistory(rec *vh.Recorder, data []byte, judge func(e ircgen.Entry, outs []out) *vh.Failure) (c *c06FuzzCase, f *vh.Failure, reached int, classes map[string]bool) {
	i, sess, id, nano := c06Base()
	c = &c06FuzzCase{Input: string(data)}
	classes = map[string]bool{}
	orc := &c06Oracle{rec: rec, classes: classes}
	recs := strings.Split(string(data), "\n")
	if len(recs) > 60 {
		recs = recs[:60]
	}
	for _, r := range recs {
		if len(r) == 0 {
			continue
		}
		op := r[0]
		sel := byte(0)
		text := ""
		if len(r) > 1 {
			sel = r[1]
			text = c06Text([]byte(r[2:]))
		}
		target := sess[int(sel)%len(sess)]
		id++
		nano += int64(time.Millisecond)
		e := ircgen.Entry{Id: id, Session: target, Nano: nano, Addr: "10.0.0.2:4321", CMID: id}
		switch op {
		case 't':
			nano += int64(6 * time.Minute)
			continue
		case 'c':
			if len(sess) >= 12 {
				continue
			}
			e.Kind, e.Session, e.Data = "create", 0, "authauthauthauth"
			sess = append(sess, id)
		case 'd':
			e.Kind, e.Data = "delete", text
		case 'm':
			e.Kind, e.Data = "mod", text
		default:
			e.Kind, e.Data = "irc", text
			if s, ok := i.sessions[robustID(target)]; ok && s.Server {
				// a client that authenticated as a services link: only conforming lines are in scope
				rec.Count("lines_skipped_sender_is_services_link", 1)
				continue
			}
		}
		c.Entries = append(c.Entries, e)
		orc.pre(i, len(c.Entries)-1, e)
		outs, pan := applyEntry(i, e)
		if f = orc.post(i, len(c.Entries)-1, e, outs, pan); f != nil {
			return c, f, orc.reached, classes
		}
		if judge != nil {
			if f = judge(e, outs); f != nil {
				return c, f, orc.reached, classes
			}
		}
	}
	return c, nil, orc.reached, classes
}

var c06FuzzSeeds = []string{
	"00TOPIC #a :\n11TOPIC #a :x\n33TOPIC #a",
	"55NICK zed\n55USER zed 0 * :z\n55JOIN #a,#b,#k sesame\n55MODE #a +o zed",
	"22KILL bob :bye\n22GLINE *@* :x\n00KICK #a bob\n00KICK #a,#a bob,gina :r",
	"33JOIN #b\n33INVITE alice #b\n33PART #b\n33INVITE alice #b",
	"66JOIN #a\n66PRIVMSG #a :hi\n66PRIVMSG ChanServ :identify x\n66WHOIS ChanServ,alice,nobody",
	"c0\n08NICK new\n08USER new 0 * :n\n08PASS :services=mypass\n08SERVER x 1 :y",
	"d1bye\n11PRIVMSG #a :ghost\n00NAMES #a\n00WHO #a\n00LIST",
	"m0PRIVMSG #a :died\nt\nt\n00PING x\n44USER erin 0 * :e",
	"00MODE #a\n00MODE #a +b\n00MODE #a -b frank!*@*\n00MODE #a +ovk bob gina key\n00MODE alice +i",
	"77AWAY\n77NICK alice\n77NICK Gina\n11ISON alice gina\n11USERHOST alice\n11MOTD\n11QUIT :x\n11JOIN 0",
}

func FuzzVerifC06(f *testing.F) {
	rec := vh.NewWorker("C06", "FuzzVerifC06")
	defer rec.Flush()
	if vh.Replaying() {
		for _, ff := range vh.ReplayFiles("C06", "FuzzVerifC06") {
			var c c06FuzzCase
			if err := json.Unmarshal(ff.Case, &c); err != nil {
				f.Fatalf("bad replay case: %v", err)
			}
			if c2, fl, _, _ := c06FuzzRun(rec, []byte(c.Input)); fl != nil {
				rec.WriteFail(fl, c2)
				f.Fatalf("%v", fl)
			}
		}
		f.Skip("replay mode: saved cases re-executed")
	}
	for _, s := range c06FuzzSeeds {
		f.Add([]byte(s))
	}
	for _, cmd := range commandNames() {
		if !strings.HasPrefix(cmd, "server_") {
			f.Add([]byte("00" + cmd + " #a bob :x\n22" + cmd + " bob #a\n55" + cmd))
		}
	}
	f.Fuzz(func(t *testing.T, data []byte) {
		c, fl, reached, classes := c06FuzzRun(rec, data)
		rec.Count("lines_that_reached_a_handler", int64(reached))
		rec.Count("distinct_command_role_outcome_classes_per_history_sum", int64(len(classes)))
		rec.Case(vh.FingerprintBytes(data), reached >= 3, nil, func() interface{} { return c })
		if fl != nil {
			rec.WriteFail(fl, c)
			t.Fatalf("%v", fl)
		}
	})
}
