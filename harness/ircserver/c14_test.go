package ircserver

// C14: global consistency of the three indexes after every applied entry.

import (
	"fmt"
	"sort"
	"strings"
	"testing"

	"pgregory.net/rapid"
	"verif.local/verif/ircgen"
	"verif.local/verif/vh"
)

// the validity grammar, re-stated (RFC 2812 2.3.1 as the server documents it)
func c14ValidNick(n string) bool {
	if n == "" || len(n) > 31 {
		return false
	}
	for k, c := range []byte(n) {
		letter := c >= 'A' && c <= 'Z' || c >= 'a' && c <= 'z'
		special := c >= 0x5B && c <= 0x60 || c >= 0x7B && c <= 0x7D
		digit := c >= '0' && c <= '9'
		if k == 0 && !letter && !special {
			return false
		}
		if k > 0 && !letter && !special && !digit && c != '-' {
			return false
		}
	}
	return true
}

func c14ValidChan(c string) bool {
	if len(c) == 0 || c[0] != '#' || len(c) > 33 {
		return false
	}
	for _, b := range []byte(c[1:]) {
		switch b {
		case 0, 7, '\r', '\n', ' ', ',', ':':
			return false
		}
	}
	return true
}

type violation struct{ sig, msg string }

// checkInvariants walks the three indexes.
func checkInvariants(i *IRCServer) []violation {
	var bad []violation
	add := func(sig, f string, a ...interface{}) { bad = append(bad, violation{sig, fmt.Sprintf(f, a...)}) }
	owner := map[string]*Session{}
	ids := make([]string, 0, len(i.sessions))
	byKey := map[string]*Session{}
	for id, s := range i.sessions {
		k := fmt.Sprintf("%020d.%020d", id.Id, id.Reply)
		ids = append(ids, k)
		byKey[k] = s
	}
	sort.Strings(ids)
	for _, k := range ids {
		s := byKey[k]
		if s.deleted {
			add("deleted-session-survives", "session %v is marked deleted but still present after the entry", s.Id)
		}
		if i.sessions[s.Id] != s || s.Id.Id == 0 {
			add("session-id-mismatch", "session stored under another id than its own: %v", s.Id)
		}
		if s.Nick != "" {
			lc := ircgen.NickLower(s.Nick)
			if o, ok := owner[lc]; ok {
				add("duplicate-nick", "sessions %v and %v own nicknames equal under IRC case mapping: %q / %q", o.Id, s.Id, o.Nick, s.Nick)
			}
			owner[lc] = s
			if !c14ValidNick(s.Nick) {
				add("invalid-nick-owned", "session %v owns syntactically invalid nickname %q", s.Id, s.Nick)
			}
			if i.nicks[lcNick(lc)] != s {
				add("nick-not-indexed", "session %v nick %q is not reachable through the nick index", s.Id, s.Nick)
			}
		}
		for c := range s.Channels {
			ch, ok := i.channels[c]
			if !ok {
				add("session-lists-missing-channel", "session %v lists channel %q which does not exist", s.Id, c)
				continue
			}
			if _, ok := ch.nicks[lcNick(ircgen.NickLower(s.Nick))]; !ok {
				add("membership-asymmetric", "session %v (%q) lists %q but the channel does not list it", s.Id, s.Nick, c)
			}
		}
	}
	for k, s := range i.nicks {
		if string(k) != ircgen.NickLower(s.Nick) {
			add("stale-nick-index", "nick index key %q points to session %v whose nick is %q", k, s.Id, s.Nick)
		}
		if i.sessions[s.Id] != s {
			add("nick-index-dead-session", "nick index key %q points to a session (%v) that is not live", k, s.Id)
		}
	}
	for name, c := range i.channels {
		if len(c.nicks) == 0 {
			add("empty-channel", "channel %q exists without members", name)
		}
		if !c14ValidChan(c.name) {
			add("invalid-channel-name", "channel name %q is not valid", c.name)
		}
		if string(name) != strings.ToLower(c.name) {
			add("channel-key-mismatch", "channel %q stored under key %q", c.name, name)
		}
		for n, p := range c.nicks {
			s, ok := i.nicks[n]
			if !ok {
				add("member-unresolvable", "channel %q lists member key %q which no live session owns", name, n)
				continue
			}
			if p == nil {
				add("nil-member-status", "channel %q has a nil status entry for %q", name, n)
			}
			if i.sessions[s.Id] != s || s.deleted {
				add("member-dead-session", "channel %q member %q resolves to a dead session", name, n)
			}
			if !s.Channels[name] {
				add("membership-asymmetric", "channel %q lists %q but the session does not list the channel", name, n)
			}
		}
	}
	return bad
}

type c14Oracle struct {
	rec                         *vh.Recorder
	every                       int
	preSessions, preChannels    int
	nickChangeOfMember, removed bool
	endInTwo                    bool
	roundtrips                  int
	preMulti                    map[uint64]bool
}

func (o *c14Oracle) begin(i *IRCServer, c *hcase, rt *rapid.T) {
	o.every = param(c, rt, "roundtrip_every", 0, 12)
}

func (o *c14Oracle) pre(i *IRCServer, idx int, e ircgen.Entry) {
	o.preSessions, o.preChannels = len(i.sessions), len(i.channels)
	o.preMulti = map[uint64]bool{}
	for id, s := range i.sessions {
		if len(s.Channels) >= 2 {
			o.preMulti[id.Id^id.Reply] = true
		}
	}
}

func (o *c14Oracle) post(i *IRCServer, idx int, e ircgen.Entry, outs []out, pan string) *vh.Failure {
	if pan != "" {
		return nil // C06's business
	}
	for _, v := range checkInvariants(i) {
		sig := v.sig + "/after:" + entryClass(e)
		if o.rec.Known(sig) {
			continue
		}
		return vh.Failf(sig, "after entry #%d %s %q: %s", idx, e.Kind, e.Data, v.msg)
	}
	if lim := int(i.Config.MaxSessions); lim > 0 && len(i.sessions) > lim && len(i.sessions) > o.preSessions {
		sig := "session-limit-exceeded/after:" + entryClass(e)
		if !o.rec.Known(sig) {
			return vh.Failf(sig, "entry #%d %q raised the number of sessions from %d to %d although MaxSessions=%d", idx, e.Data, o.preSessions, len(i.sessions), lim)
		}
	}
	if lim := int(i.Config.MaxChannels); lim > 0 && len(i.channels) > lim && len(i.channels) > o.preChannels {
		sig := "channel-limit-exceeded/after:" + entryClass(e)
		if !o.rec.Known(sig) {
			return vh.Failf(sig, "entry #%d %q raised the number of channels from %d to %d although MaxChannels=%d", idx, e.Data, o.preChannels, len(i.channels), lim)
		}
	}
	for _, ot := range outs {
		switch outCommand(ot) {
		case "NICK":
			if len(ot.To) > 1 {
				o.nickChangeOfMember = true
			}
		case "KICK", "KILL":
			o.removed = true
		}
	}
	if len(i.sessions) < o.preSessions {
		for id := range o.preMulti {
			found := false
			for sid := range i.sessions {
				if sid.Id^sid.Reply == id {
					found = true
				}
			}
			if !found {
				o.endInTwo = true
			}
		}
	}
	return nil
}

// entryClass names the command of an entry for signatures.
func entryClass(e ircgen.Entry) string {
	if e.Kind != "irc" {
		return e.Kind
	}
	w := firstWord(e.Data)
	if len(w) > 12 {
		w = w[:12]
	}
	for _, r := range w {
		if r < 'A' || r > 'Z' {
			return "OTHER"
		}
	}
	return w
}

func (o *c14Oracle) replace(i *IRCServer, idx int) (*IRCServer, *vh.Failure) {
	if o.every == 0 || (idx+1)%o.every != 0 {
		return i, nil
	}
	b, err := roundTrip(i)
	if err != nil {
		return i, vh.Failf("roundtrip-error", "Marshal/Unmarshal after entry #%d failed: %v", idx, err)
	}
	o.roundtrips++
	for _, v := range checkInvariants(b) {
		sig := v.sig + "/after:roundtrip"
		if o.rec.Known(sig) {
			continue
		}
		return b, vh.Failf(sig, "after a Marshal/Unmarshal round trip following entry #%d: %s", idx, v.msg)
	}
	return b, nil
}

func (o *c14Oracle) end(i *IRCServer) *vh.Failure { return nil }

func (o *c14Oracle) nontrivial() (bool, []string) {
	var l []string
	if o.nickChangeOfMember {
		l = append(l, "c14:nick-change-of-channel-member")
	}
	if o.removed {
		l = append(l, "c14:forced-removal")
	}
	if o.endInTwo {
		l = append(l, "c14:session-end-while-in-2+-channels")
	}
	if o.roundtrips > 0 {
		l = append(l, "c14:with-snapshot-roundtrip")
	}
	return o.nickChangeOfMember && o.removed && o.endInTwo, l
}

func TestVerifC14(t *testing.T) {
	standardTest(t, "C14", "TestVerifC14", runOpts{minLen: 20, maxLen: 120, captchaSometimes: true, gen: ircgen.Options{Bias: "membership", WithMoD: true}},
		func(rec *vh.Recorder) oracle { return &c14Oracle{rec: rec} })
}
