package ircserver

// C17: session lookups on a lagging instance, the expiry sweep, and the
// clean-up after a session ended.

import (
	"encoding/json"
	"fmt"
	"sort"
	"strings"
	"testing"
	"time"

	"github.com/robustirc/robustirc/internal/robust"
	"pgregory.net/rapid"
	"verif.local/verif/ircgen"
	"verif.local/verif/vh"
)

type endedSess struct {
	id     uint64
	nick   string
	link   bool
	atIdx  int
	inChan bool
}

type c17Oracle struct {
	rec        *vh.Recorder
	maxApplied uint64
	created    []uint64
	preSess    map[uint64]endedSess // Reply==0 sessions before the entry
	ended      map[uint64]endedSess
	midLife    bool
	endedInCh  bool
	probeEvery int
	lookups    int64
}

func (o *c17Oracle) begin(i *IRCServer, c *hcase, rt *rapid.T) {
	o.ended = map[uint64]endedSess{}
	o.probeEvery = param(c, rt, "restore_probe_every", 1, 8)
}

func (o *c17Oracle) pre(i *IRCServer, idx int, e ircgen.Entry) {
	o.preSess = map[uint64]endedSess{}
	for id, s := range i.sessions {
		if id.Reply == 0 {
			inCh := false
			for c := range s.Channels {
				if ch, ok := i.channels[c]; ok && len(ch.nicks) > 1 {
					inCh = true
				}
			}
			o.preSess[id.Id] = endedSess{id: id.Id, nick: s.Nick, link: s.Server, atIdx: idx, inChan: inCh}
		}
	}
}

func (o *c17Oracle) lookupChecks(i *IRCServer, what string, idx int) *vh.Failure {
	// queried ids: every id created so far, neighbours, and ids newer than anything applied
	q := map[uint64]bool{}
	for _, id := range o.created {
		q[id] = true
		q[id+1] = true
		if id > 1 {
			q[id-1] = true
		}
	}
	for d := uint64(0); d < 4; d++ {
		q[o.maxApplied+1+d] = true
	}
	q[o.maxApplied] = true
	var ids []uint64
	for id := range q {
		if id != 0 {
			ids = append(ids, id)
		}
	}
	sort.Slice(ids, func(a, b int) bool { return ids[a] < ids[b] })
	for _, id := range ids {
		o.lookups++
		_, live := i.sessions[robust.Id{Id: id}]
		s, err := i.GetSession(robust.Id{Id: id})
		switch {
		case live && (err != nil || s == nil):
			sig := "live-session-not-found"
			if !o.rec.Known(sig) {
				return vh.Failf(sig, "%s after entry #%d: GetSession(%d) = %v although the session is live", what, idx, id, err)
			}
		case !live && err == nil:
			return vh.Failf("dead-session-found", "%s after entry #%d: GetSession(%d) succeeded although no such session is live", what, idx, id)
		case !live && id > o.maxApplied && err != ErrSessionNotYetSeen:
			sig := "future-session-reported-gone"
			if !o.rec.Known(sig) {
				return vh.Failf(sig, "%s after entry #%d: GetSession(%d) = %v although the newest applied entry is %d (a lagging node must answer 'not yet seen')", what, idx, id, err, o.maxApplied)
			}
		case !live && err != ErrSessionNotYetSeen && err != ErrNoSuchSession:
			return vh.Failf("unexpected-lookup-error", "%s after entry #%d: GetSession(%d) = %v", what, idx, id, err)
		}
	}
	return nil
}

func (o *c17Oracle) post(i *IRCServer, idx int, e ircgen.Entry, outs []out, pan string) *vh.Failure {
	if pan != "" {
		return nil
	}
	if e.Id > o.maxApplied {
		o.maxApplied = e.Id
	}
	if e.Kind == "create" {
		o.created = append(o.created, e.Id)
	}
	// (c) nothing further for sessions that ended earlier
	for _, ot := range outs {
		for _, to := range ot.To {
			es, ok := o.ended[to]
			if !ok {
				continue
			}
			orphan := false
			if es.link {
				for id := range i.sessions {
					if id.Id == to {
						orphan = true // pseudo-clients that outlived their link share its id
					}
				}
				for id := range o.preSess {
					_ = id
				}
			}
			if orphan {
				continue
			}
			sig := "ended-session-still-addressed"
			if es.link {
				sig = "ended-services-link-still-addressed"
			}
			if !o.rec.Known(sig) {
				return vh.Failf(sig, "session %d ended at entry #%d, but entry #%d %q still names it as recipient of %q", to, es.atIdx, idx, e.Data, ot.Data)
			}
		}
	}
	// which sessions ended in this entry
	for id, ps := range o.preSess {
		if _, still := i.sessions[robust.Id{Id: id}]; still {
			continue
		}
		o.ended[id] = ps
		if ps.inChan {
			o.endedInCh = true
		}
		if ps.nick != "" {
			lc := lcNick(ircgen.NickLower(ps.nick))
			if owner, ok := i.nicks[lc]; ok && (owner.Id.Id == id && owner.Id.Reply == 0) {
				return vh.Failf("nick-not-freed", "session %d ended at entry #%d %q but its nickname %q is still indexed to it", id, idx, e.Data, ps.nick)
			}
			for cn, c := range i.channels {
				if _, ok := c.nicks[lc]; ok {
					if owner, ok2 := i.nicks[lc]; !ok2 || owner.Id.Id == id {
						return vh.Failf("ended-session-still-member", "session %d ended at entry #%d %q but channel %q still lists %q", id, idx, e.Data, cn, ps.nick)
					}
				}
			}
			// the nickname is free again: somebody else can take it (on a clone)
			if _, taken := i.nicks[lc]; !taken && !IsServicesNickname(ps.nick) && c14ValidNick(ps.nick) {
				if _, held := i.svsholds[lc]; !held {
					if lim := i.SessionLimit(); lim == 0 || uint64(len(i.sessions)) < lim {
						clone, err := roundTrip(i)
						if err == nil {
							nid := o.maxApplied + 1000
							applyEntry(clone, ircgen.Entry{Kind: "create", Id: nid, Data: "ffffffffffffffffffffffffffffffff", Nano: e.Nano})
							res, _ := applyEntry(clone, ircgen.Entry{Kind: "irc", Id: nid + 1, Session: nid, Data: "NICK " + ps.nick, Nano: e.Nano, CMID: 1})
							for _, r := range res {
								if outCommand(r) == "433" {
									return vh.Failf("freed-nick-not-available", "session %d ended at entry #%d but a new session cannot take its nickname %q: %q", id, idx, ps.nick, r.Data)
								}
							}
						}
					}
				}
			}
		}
	}
	// (a) lookups on this prefix, and on the prefix after snapshot+restore
	if f := o.lookupChecks(i, "lookup", idx); f != nil {
		return f
	}
	live := false
	for _, id := range o.created {
		if _, ok := i.sessions[robust.Id{Id: id}]; ok {
			live = true
		}
	}
	if live && len(o.ended) > 0 {
		o.midLife = true
	}
	if (idx+1)%o.probeEvery == 0 {
		r, err := roundTrip(i)
		if err != nil {
			return vh.Failf("roundtrip-error", "Marshal/Unmarshal after entry #%d failed: %v", idx, err)
		}
		if f := o.lookupChecks(r, "lookup after snapshot+restore", idx); f != nil {
			return f
		}
	}
	return nil
}

func (o *c17Oracle) end(i *IRCServer) *vh.Failure { return nil }

func (o *c17Oracle) nontrivial() (bool, []string) {
	o.rec.Count("lookups_checked", o.lookups)
	var l []string
	if o.endedInCh {
		l = append(l, "c17:ended-session-was-in-shared-channel")
	}
	if o.midLife {
		l = append(l, "c17:prefix-with-live-and-dead-sessions")
	}
	return o.midLife && o.endedInCh, l
}

func TestVerifC17(t *testing.T) {
	standardTest(t, "C17", "TestVerifC17", runOpts{minLen: 10, maxLen: 100, captchaSometimes: true, gen: ircgen.Options{Bias: "membership", WithMoD: true}},
		func(rec *vh.Recorder) oracle { return &c17Oracle{rec: rec} })
}

// ---- (b) the expiry sweep ----

type c17ExpSession struct {
	AgeMs      int64 `json:"idle_ms"` // how long ago (relative to the sweep) the last activity was
	Registered bool  `json:"registered"`
	Services   int   `json:"pseudo_clients"` // >0: a services link with that many pseudo-clients
	Pinged     bool  `json:"last_activity_was_ping"`
	// EarlierMs: when the last activity was a PING, everything before it happened this much earlier
	EarlierMs   int64 `json:"non_ping_activity_earlier_ms"`
	PseudoJoins bool  `json:"pseudo_clients_join_a_channel"`
}

type c17ExpCase struct {
	ExpirationS int             `json:"expiration_s"`
	Sessions    []c17ExpSession `json:"sessions"`
}

func c17ExpCheck(c c17ExpCase) *vh.Failure {
	exp := time.Duration(c.ExpirationS) * time.Second
	cfg := fmt.Sprintf("SessionExpiration = %q\nPostMessageCooloff = \"0s\"\n[IRC]\n[[IRC.Services]]\nPassword = \"mypass\"\n", exp.String())
	i := newServer(cfg, time.Unix(0, 1))
	now := time.Now()
	// order the activity so that timestamps are non-decreasing: oldest first
	order := make([]int, len(c.Sessions))
	for k := range order {
		order[k] = k
	}
	sort.SliceStable(order, func(a, b int) bool { return c.Sessions[order[a]].AgeMs > c.Sessions[order[b]].AgeMs })
	want := map[uint64]bool{}
	id := uint64(0)
	for _, k := range order {
		s := c.Sessions[k]
		at := now.Add(-time.Duration(s.AgeMs) * time.Millisecond).UnixNano()
		id += 10
		sid := id
		// created a little earlier than its last activity
		applyEntry(i, ircgen.Entry{Kind: "create", Id: sid, Data: "0123456789abcdef0123456789abcdef", Nano: at - int64(time.Second)})
		n := 1
		// everything but the final PING happened EarlierMs before the last activity
		early := at - s.EarlierMs*int64(time.Millisecond)
		if !s.Pinged {
			early = at
		}
		line := func(data string) {
			ts := early
			if strings.HasPrefix(data, "PING") {
				ts = at
			}
			applyEntry(i, ircgen.Entry{Kind: "irc", Id: sid + uint64(n), Session: sid, Data: data, Nano: ts, CMID: uint64(n)})
			n++
		}
		switch {
		case s.Services > 0:
			line("PASS :services=mypass")
			line("SERVER services.robustirc.net 1 :Services")
			for p := 0; p < s.Services; p++ {
				nick := []string{"ChanServ", "NickServ", "OperServ"}[p%3]
				pn := nick + fmt.Sprint(sid) + "serv"
				line("NICK " + pn + " 1 1422134861 services localhost.net services.localhost.net 0 :svc")
				if s.PseudoJoins {
					line(":" + pn + " JOIN #services")
				}
			}
		case s.Registered:
			line(fmt.Sprintf("NICK n%d", sid))
			line("USER u 0 * :r")
		}
		if s.Pinged {
			line("PING x")
		}
		if time.Duration(s.AgeMs)*time.Millisecond > exp {
			want[sid] = true
		}
	}
	got := map[uint64]int{}
	for _, m := range i.ExpireSessions() {
		if m.Type != robust.DeleteSession {
			return vh.Failf("expiry-wrong-type", "ExpireSessions returned a message of type %v", m.Type)
		}
		if m.Session.Reply != 0 {
			return vh.Failf("expiry-of-pseudo-client", "ExpireSessions proposes to delete services pseudo-client %v", m.Session)
		}
		got[m.Session.Id]++
	}
	for sid := range want {
		if got[sid] != 1 {
			return vh.Failf("idle-session-not-expired", "session %d has been idle longer than %v but ExpireSessions proposed its deletion %d times", sid, exp, got[sid])
		}
	}
	for sid, n := range got {
		if !want[sid] {
			return vh.Failf("active-session-expired", "ExpireSessions proposes to delete session %d (%d times) although its last activity is younger than %v", sid, n, exp)
		}
	}
	return nil
}

func TestVerifC17Expiry(t *testing.T) {
	rec := vh.New("C17", "TestVerifC17Expiry")
	defer rec.Flush()
	if vh.Replaying() {
		for _, ff := range vh.ReplayFiles("C17", "TestVerifC17Expiry") {
			var c c17ExpCase
			if err := json.Unmarshal(ff.Case, &c); err != nil {
				t.Fatalf("bad replay case: %v", err)
			}
			if f := c17ExpCheck(c); f != nil && !rec.Known(f.Signature) {
				rec.WriteFail(f, c)
				t.Fatalf("%v", f)
			}
		}
		return
	}
	rapid.Check(t, func(rt *rapid.T) {
		c := c17ExpCase{ExpirationS: rapid.SampledFrom([]int{30, 120, 600, 3600}).Draw(rt, "expiration")}
		n := rapid.IntRange(1, 7).Draw(rt, "sessions")
		young, old, pseudo := false, false, false
		for k := 0; k < n; k++ {
			// distance to the threshold: at least 2 s on either side (a knife-edge case would measure the test's own latency)
			d := int64(rapid.OneOf(rapid.IntRange(2000, 5000), rapid.IntRange(2000, 25000), rapid.IntRange(2000, 3000000)).Draw(rt, "distance_ms"))
			s := c17ExpSession{Registered: rapid.Bool().Draw(rt, "registered"), Pinged: rapid.Bool().Draw(rt, "pinged")}
			if rapid.IntRange(0, 3).Draw(rt, "services") == 0 {
				s.Services = rapid.IntRange(1, 3).Draw(rt, "pseudoclients")
				s.PseudoJoins = rapid.Bool().Draw(rt, "pseudojoins")
				pseudo = true
			}
			if s.Pinged {
				s.EarlierMs = int64(rapid.OneOf(rapid.Just(0), rapid.IntRange(1000, 60000), rapid.IntRange(1000, 4000000)).Draw(rt, "earlier_ms"))
			}
			if rapid.Bool().Draw(rt, "older") {
				s.AgeMs = int64(c.ExpirationS)*1000 + d
				old = true
			} else {
				s.AgeMs = int64(c.ExpirationS)*1000 - d
				if s.AgeMs < 0 {
					s.AgeMs = 0
				}
				young = true
			}
			c.Sessions = append(c.Sessions, s)
		}
		var labels []string
		if pseudo {
			labels = append(labels, "c17:expiry-with-pseudo-clients")
		}
		rec.Case(vh.Fingerprint(c), young && old && pseudo, labels, func() interface{} { return c })
		if f := c17ExpCheck(c); f != nil {
			if rec.Known(f.Signature) {
				return
			}
			rec.WriteFail(f, c)
			rt.Fatalf("%v", f)
		}
	})
}

var _ = strings.ToLower
