package ircserver

// C06: no client line (any role, any reachable state) and no conforming
// services line makes the state machine panic.

import (
	"strings"
	"testing"

	"pgregory.net/rapid"
	"verif.local/verif/ircgen"
	"verif.local/verif/vh"
)

type c06Oracle struct {
	rec     *vh.Recorder
	reached int
	classes map[string]bool
	role    string
	// every > 0: after every every-th entry the instance is replaced by what a node that restores
	// a snapshot holds (Marshal + Unmarshal): "any reachable state" includes the states of
	// restarted nodes and of followers that installed a snapshot
	every      int
	roundtrips int
}

func (o *c06Oracle) begin(i *IRCServer, c *hcase, rt *rapid.T) {
	o.classes = map[string]bool{}
	o.every = param(c, rt, "restore_every", 0, 12)
	if o.every == 1 {
		o.every = 0 // half of the weight of "never" comes from here
	}
}

func (o *c06Oracle) replace(i *IRCServer, idx int) (*IRCServer, *vh.Failure) {
	if o.every == 0 || (idx+1)%o.every != 0 {
		return i, nil
	}
	b, err := roundTrip(i)
	if err != nil {
		return i, nil // serialization errors are C03's subject
	}
	o.roundtrips++
	return b, nil
}

func (o *c06Oracle) pre(i *IRCServer, idx int, e ircgen.Entry) {
	o.role = "absent"
	if s, ok := i.sessions[robustID(e.Session)]; ok {
		switch {
		case s.Server:
			o.role = "services"
		case s.Operator:
			o.role = "operator"
		case s.loggedIn:
			o.role = "registered"
		default:
			o.role = "unregistered"
		}
	}
}

func firstWord(s string) string {
	f := strings.Fields(s)
	if len(f) == 0 {
		return ""
	}
	if strings.HasPrefix(f[0], ":") && len(f) > 1 {
		return strings.ToUpper(f[1])
	}
	return strings.ToUpper(f[0])
}

func outCommand(o out) string {
	f := strings.Fields(o.Data)
	if len(f) == 0 {
		return ""
	}
	if strings.HasPrefix(f[0], ":") {
		if len(f) > 1 {
			return f[1]
		}
		return ""
	}
	return f[0]
}

func (o *c06Oracle) post(i *IRCServer, idx int, e ircgen.Entry, outs []out, pan string) *vh.Failure {
	if pan != "" {
		sig := "panic@" + pan[strings.LastIndex(pan, "@")+1:]
		sig = strings.TrimSpace(strings.Replace(sig, "panic@ ", "panic@", 1))
		if o.rec.Known(sig) {
			return nil
		}
		return vh.Failf(sig, "entry #%d (%s session %d, role %s) %q panicked: %s", idx, e.Kind, e.Session, o.role, e.Data, pan)
	}
	if e.Kind == "irc" && o.role != "absent" {
		gate := false
		if len(outs) > 0 {
			switch outCommand(outs[0]) {
			case "451", "421", "461":
				gate = true
			}
		}
		if !gate {
			o.reached++
			outcome := "silent"
			if len(outs) > 0 {
				outcome = outCommand(outs[0])
			}
			word := firstWord(e.Data)
			if _, known := Commands[word]; !known {
				if _, known = Commands["server_"+word]; !known {
					word = "(not-a-command)"
				}
			}
			cls := word + "/" + o.role + "/" + outcome
			if !o.classes[cls] {
				o.classes[cls] = true
				o.rec.Label("class:" + o.role + ":" + word)
			}
		}
		o.rec.Count("lines_evaluated", 1)
	}
	return nil
}

func (o *c06Oracle) end(i *IRCServer) *vh.Failure { return nil }

func (o *c06Oracle) nontrivial() (bool, []string) {
	o.rec.Count("lines_that_reached_a_handler", int64(o.reached))
	o.rec.Count("distinct_command_role_outcome_classes_per_history_sum", int64(len(o.classes)))
	var l []string
	if o.roundtrips > 0 {
		l = append(l, "c06:lines-applied-to-a-restored-state")
	}
	return o.reached >= 3, l
}

func TestVerifC06(t *testing.T) {
	standardTest(t, "C06", "TestVerifC06", runOpts{minLen: 5, maxLen: 80, captchaSometimes: true, profileMix: true, gen: ircgen.Options{WithMoD: true, AllowLF: true}},
		func(rec *vh.Recorder) oracle { return &c06Oracle{rec: rec} })
}
