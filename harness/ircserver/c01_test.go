package ircserver

// C01 (unit a): the same history on three instances created with the same
// network name but different creation times gives identical replies and state.

import (
	"fmt"
	"strings"
	"testing"
	"time"

	"pgregory.net/rapid"
	"verif.local/verif/ircgen"
	"verif.local/verif/vh"
)

func mask003(data string) string {
	f := strings.SplitN(data, " ", 4)
	if len(f) >= 3 && f[1] == "003" {
		return f[0] + " 003 " + f[2] + " :<creation time masked>"
	}
	return data
}

func sameOuts(a, b []out) string {
	if len(a) != len(b) {
		return fmt.Sprintf("%d replies vs %d replies", len(a), len(b))
	}
	for k := range a {
		if a[k].Id != b[k].Id || a[k].Reply != b[k].Reply {
			return fmt.Sprintf("reply #%d has id %d.%d vs %d.%d", k, a[k].Id, a[k].Reply, b[k].Id, b[k].Reply)
		}
		if mask003(a[k].Data) != mask003(b[k].Data) {
			return fmt.Sprintf("reply #%d differs: %q vs %q", k, a[k].Data, b[k].Data)
		}
		if fmt.Sprint(a[k].To) != fmt.Sprint(b[k].To) {
			return fmt.Sprintf("reply #%d %q has recipients %v vs %v", k, a[k].Data, a[k].To, b[k].To)
		}
	}
	return ""
}

type c01Oracle struct {
	rec        *vh.Recorder
	others     []*IRCServer
	multiReply bool
	multiMap   bool
}

func (o *c01Oracle) begin(i *IRCServer, c *hcase, rt *rapid.T) {
	o.others = []*IRCServer{
		newServer(c.InitialConfig, time.Unix(1700000000, 0)),
		newServer(c.InitialConfig, time.Now()),
	}
}

func (o *c01Oracle) pre(i *IRCServer, idx int, e ircgen.Entry) {}

func (o *c01Oracle) post(i *IRCServer, idx int, e ircgen.Entry, outs []out, pan string) *vh.Failure {
	if pan != "" {
		return nil
	}
	for k, other := range o.others {
		outs2, pan2 := applyEntry(other, e)
		if pan2 != "" {
			return vh.Failf("panic-on-one-instance", "entry #%d %q panicked on instance %d only: %s", idx, e.Data, k+2, pan2)
		}
		if d := sameOuts(outs, outs2); d != "" {
			sig := "output-differs/after:" + entryClass(e)
			if o.rec.Known(sig) {
				continue
			}
			return vh.Failf(sig, "entry #%d (%s) %q: instance 1 vs instance %d: %s", idx, e.Kind, e.Data, k+2, d)
		}
	}
	if len(outs) >= 2 {
		o.multiReply = true
	}
	if !o.multiMap {
		pseudo := map[uint64]int{}
		for id, s := range i.sessions {
			if len(s.Channels) >= 2 {
				o.multiMap = true
			}
			if id.Reply != 0 {
				pseudo[id.Id]++
				if pseudo[id.Id] >= 2 {
					o.multiMap = true
				}
			}
		}
		for _, c := range i.channels {
			if len(c.nicks) >= 2 || len(c.bans) >= 2 {
				o.multiMap = true
			}
		}
	}
	return nil
}

func (o *c01Oracle) end(i *IRCServer) *vh.Failure {
	d1 := dumpServer(i)
	for k, other := range o.others {
		if diff := diffDumps(d1, dumpServer(other), 6); len(diff) > 0 {
			sig := "state-differs:" + genericPath(strings.SplitN(diff[0], ": ", 2)[0])
			if o.rec.Known(sig) {
				continue
			}
			return vh.Failf(sig, "final state of instance 1 vs instance %d differs: %s", k+2, strings.Join(diff, "; "))
		}
	}
	return nil
}

func (o *c01Oracle) nontrivial() (bool, []string) {
	return o.multiReply && o.multiMap, nil
}

func TestVerifC01(t *testing.T) {
	standardTest(t, "C01", "TestVerifC01", runOpts{minLen: 5, maxLen: 80, captchaSometimes: true, profileMix: true, gen: ircgen.Options{WithMoD: true}},
		func(rec *vh.Recorder) oracle { return &c01Oracle{rec: rec} })
}
