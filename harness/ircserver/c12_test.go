package ircserver

// C12: every output line reaches exactly the entitled sessions and carries the
// sender's real identity. Membership comes from an event-driven model that is
// updated only from the lines the server announces (JOIN/PART/KICK/QUIT/KILL/
// ERROR) and from the committed entry itself; nickname ownership and user
// names are read from the instance (pre/post view). The model's membership is
// cross-checked against the instance after every entry.

import (
	"fmt"
	"sort"
	"strings"
	"testing"

	"gopkg.in/sorcix/irc.v2"
	"pgregory.net/rapid"
	"verif.local/verif/ircgen"
	"verif.local/verif/vh"
)

type c12Sess struct {
	id, reply  uint64
	nick, user string
	server     bool
	loggedIn   bool
}

type c12View struct {
	byKey   map[string]*c12Sess // member key -> session
	owner   map[string]string   // lc nick -> member key
	servers map[uint64]bool     // Id.Id of services links
}

func memberKey(id, reply uint64, nick string) string {
	if reply == 0 {
		return fmt.Sprintf("c:%d", id)
	}
	return "s:" + ircgen.NickLower(nick)
}

func takeC12View(i *IRCServer) *c12View {
	v := &c12View{byKey: map[string]*c12Sess{}, owner: map[string]string{}, servers: map[uint64]bool{}}
	for id, s := range i.sessions {
		cs := &c12Sess{id: id.Id, reply: id.Reply, nick: s.Nick, user: s.Username, server: s.Server, loggedIn: s.loggedIn}
		k := memberKey(id.Id, id.Reply, s.Nick)
		v.byKey[k] = cs
		if s.Nick != "" {
			v.owner[ircgen.NickLower(s.Nick)] = k
		}
		if s.Server {
			v.servers[id.Id] = true
		}
	}
	return v
}

// truthMembers reads the instance's membership in model keys.
func truthMembers(i *IRCServer) map[string]map[string]bool {
	m := map[string]map[string]bool{}
	for name, c := range i.channels {
		set := map[string]bool{}
		for n := range c.nicks {
			if s, ok := i.nicks[n]; ok {
				set[memberKey(s.Id.Id, s.Id.Reply, s.Nick)] = true
			} else {
				set["?:"+string(n)] = true
			}
		}
		m[string(name)] = set
	}
	return m
}

type c12Oracle struct {
	// restoreEvery > 0: after every restoreEvery-th entry the instance is replaced by what a node
	// that restores a snapshot holds (Marshal + Unmarshal); the property holds in those states too
	restoreEvery int
	restores     int

	rec     *vh.Recorder
	members map[string]map[string]bool // event-driven model: lc channel -> member keys
	preV    *c12View
	nontriv int
	sub     map[string]bool
	kicked  map[string]bool // channels that saw a KICK (for the sub-class labels)
	// everLink holds every session id that ever was a services link in this history: its
	// pseudo-clients share the id, and can outlive the link when an IRC operator kills the link session.
	everLink map[uint64]bool
}

func (o *c12Oracle) begin(i *IRCServer, c *hcase, rt *rapid.T) {
	o.members = map[string]map[string]bool{}
	o.sub = map[string]bool{}
	o.kicked = map[string]bool{}
	o.everLink = map[uint64]bool{}
	o.restoreEvery = param(c, rt, "restore_every", 0, 12)
	if o.restoreEvery == 1 {
		o.restoreEvery = 0
	}
}

func (o *c12Oracle) pre(i *IRCServer, idx int, e ircgen.Entry) { o.preV = takeC12View(i) }

func clientSet(keys map[string]bool, v *c12View, post *c12View) map[uint64]bool {
	r := map[uint64]bool{}
	for k := range keys {
		if strings.HasPrefix(k, "c:") {
			var id uint64
			fmt.Sscanf(k, "c:%d", &id)
			if v.servers[id] || post.servers[id] {
				continue
			}
			r[id] = true
		}
	}
	return r
}

func copySet(m map[string]bool) map[string]bool {
	r := map[string]bool{}
	for k := range m {
		r[k] = true
	}
	return r
}

func (o *c12Oracle) sharers(key string, members map[string]map[string]bool) map[string]bool {
	r := map[string]bool{}
	for _, set := range members {
		if set[key] {
			for k := range set {
				r[k] = true
			}
		}
	}
	return r
}

func idSetString(m map[uint64]bool) string {
	var k []uint64
	for x := range m {
		k = append(k, x)
	}
	sort.Slice(k, func(a, b int) bool { return k[a] < k[b] })
	return fmt.Sprint(k)
}

func subset(a, b map[uint64]bool) bool {
	for k := range a {
		if !b[k] {
			return false
		}
	}
	return true
}

type prefixInfo struct {
	kind string // user | pseudo | svc | server | name | none
	key  string // member key of the subject for user/pseudo/svc
	id   uint64
	name string
	user string
}

func classifyPrefix(p *irc.Prefix, v *c12View) prefixInfo {
	if p == nil {
		return prefixInfo{kind: "none"}
	}
	// nick!user@host is split at the FIRST '@' by the parser; a user name may contain '@' (USER x@y),
	// the host the server derives from the session never does: split at the last one
	if k := strings.LastIndex(p.Host, "@"); k >= 0 {
		q := *p
		q.User = p.User + "@" + p.Host[:k]
		q.Host = p.Host[k+1:]
		p = &q
	}
	switch {
	case strings.HasPrefix(p.Host, "robust/0x"):
		var id uint64
		fmt.Sscanf(p.Host, "robust/0x%x", &id)
		if v.servers[id] {
			return prefixInfo{kind: "pseudo", key: "s:" + ircgen.NickLower(p.Name), id: id, name: p.Name, user: p.User}
		}
		return prefixInfo{kind: "user", key: fmt.Sprintf("c:%d", id), id: id, name: p.Name, user: p.User}
	case p.Host == "services" && p.User == "services":
		return prefixInfo{kind: "svc", key: "s:" + ircgen.NickLower(p.Name), name: p.Name}
	case p.Name == networkName && p.User == "" && p.Host == "":
		return prefixInfo{kind: "server"}
	case p.User == "" && p.Host == "":
		return prefixInfo{kind: "name", name: p.Name}
	}
	return prefixInfo{kind: "other", name: p.Name}
}

func isNumeric(cmd string) bool {
	return len(cmd) == 3 && cmd[0] >= '0' && cmd[0] <= '9' && cmd[1] >= '0' && cmd[1] <= '9' && cmd[2] >= '0' && cmd[2] <= '9'
}

func (o *c12Oracle) post(i *IRCServer, idx int, e ircgen.Entry, outs []out, pan string) *vh.Failure {
	if pan != "" {
		return nil
	}
	pre := o.preV
	post := takeC12View(i)
	for id := range pre.servers {
		o.everLink[id] = true
	}
	for id := range post.servers {
		o.everLink[id] = true
	}
	for id := range o.everLink {
		pre.servers[id] = true
		post.servers[id] = true
	}
	actorKey := fmt.Sprintf("c:%d", e.Session)
	actor, actorExists := pre.byKey[actorKey]
	servicesCaused := actorExists && actor.server
	// who ends in this entry (present before, gone after)
	ended := map[string]bool{}
	for k := range pre.byKey {
		if _, ok := post.byKey[k]; !ok {
			ended[k] = true
		}
	}
	// the model after this entry: start from a copy and apply the announcements
	after := map[string]map[string]bool{}
	for c, set := range o.members {
		after[c] = copySet(set)
	}
	type parsed struct {
		m   *irc.Message
		pfx prefixInfo
	}
	var lines []parsed
	killedKey := ""
	for _, ot := range outs {
		m := irc.ParseMessage(ot.Data)
		if m == nil {
			lines = append(lines, parsed{})
			continue
		}
		pi := classifyPrefix(m.Prefix, pre)
		lines = append(lines, parsed{m, pi})
		lcP0 := ""
		if len(m.Params) > 0 {
			lcP0 = strings.ToLower(m.Params[0])
		}
		removeAll := func(key string) {
			for _, set := range after {
				delete(set, key)
			}
		}
		switch m.Command {
		case "JOIN":
			if pi.key != "" && strings.HasPrefix(lcP0, "#") {
				if after[lcP0] == nil {
					after[lcP0] = map[string]bool{}
				}
				after[lcP0][pi.key] = true
			}
		case "PART":
			if pi.key != "" && after[lcP0] != nil {
				delete(after[lcP0], pi.key)
			}
		case "KICK":
			if len(m.Params) > 1 && after[lcP0] != nil {
				if k, ok := pre.owner[ircgen.NickLower(m.Params[1])]; ok {
					delete(after[lcP0], k)
				}
				o.kicked[lcP0] = true
			}
		case "QUIT":
			if pi.key != "" {
				removeAll(pi.key)
			}
		case "KILL":
			if len(m.Params) > 0 {
				if k, ok := pre.owner[ircgen.NickLower(m.Params[0])]; ok {
					removeAll(k)
					killedKey = k
				}
			}
		}
	}
	// entry-level knowledge: a QUIT line or a session deletion ends the acting session
	// (announced or not); the closing ERROR ends its addressee.
	if actorExists && !servicesCaused {
		isQuit := e.Kind == "delete"
		if e.Kind == "irc" {
			if m := irc.ParseMessage(e.Data); m != nil && strings.ToUpper(m.Command) == "QUIT" {
				isQuit = true
			}
		}
		if isQuit || ended[actorKey] {
			for _, set := range after {
				delete(set, actorKey)
			}
		}
	}
	for c, set := range after {
		if len(set) == 0 {
			delete(after, c)
		}
	}

	allLive := map[uint64]bool{}
	for _, s := range pre.byKey {
		if s.reply == 0 && !s.server && s.loggedIn {
			allLive[s.id] = true
		}
	}

	// judge every line
	for k, ot := range outs {
		ln := lines[k]
		if ln.m == nil {
			o.rec.Count("unparsable_lines", 1)
			continue
		}
		m, pi := ln.m, ln.pfx
		got := map[uint64]bool{}
		for _, id := range ot.To {
			if !pre.servers[id] && !post.servers[id] {
				got[id] = true
			}
		}
		p0 := ""
		if len(m.Params) > 0 {
			p0 = m.Params[0]
		}
		lcP0 := strings.ToLower(p0)
		ownerOf := func(nick string) map[string]bool {
			r := map[string]bool{}
			if key, ok := pre.owner[ircgen.NickLower(nick)]; ok {
				r[key] = true
			} else if key, ok := post.owner[ircgen.NickLower(nick)]; ok {
				// the nickname was taken by this very entry (NICK followed by the login burst)
				r[key] = true
			}
			return r
		}
		var L, U map[uint64]bool
		kind := m.Command + "/" + pi.kind
		exact := func(keys map[string]bool) { L = clientSet(keys, pre, post); U = L }
		switch {
		case isNumeric(m.Command):
			kind = "NUM/" + pi.kind
			if !servicesCaused {
				exact(map[string]bool{actorKey: true})
			} else {
				L = map[uint64]bool{}
				U = clientSet(ownerOf(p0), pre, post)
			}
		case m.Command == "PRIVMSG" || m.Command == "NOTICE":
			switch {
			case strings.HasPrefix(p0, "#"):
				mem := copySet(o.members[lcP0])
				if pi.kind == "user" {
					delete(mem, pi.key)
				}
				exact(mem)
			case strings.HasPrefix(p0, "$"):
				all := map[string]bool{}
				for _, key := range pre.owner {
					all[key] = true
				}
				exact(all)
			case pi.kind == "server":
				if !servicesCaused {
					exact(map[string]bool{actorKey: true})
				} else {
					L = map[uint64]bool{}
					U = clientSet(ownerOf(p0), pre, post)
				}
			default:
				exact(ownerOf(p0))
			}
		case m.Command == "ERROR":
			x := actorKey
			if killedKey != "" {
				x = killedKey
			}
			exact(map[string]bool{x: true})
		case m.Command == "JOIN" && pi.key != "":
			exact(after[lcP0])
		case (m.Command == "PART" || m.Command == "KICK" || m.Command == "TOPIC" || (m.Command == "MODE" && strings.HasPrefix(p0, "#"))) && (pi.kind == "user" || pi.kind == "pseudo" || pi.kind == "svc"):
			exact(o.members[lcP0])
		case m.Command == "MODE" && strings.HasPrefix(p0, "#") && pi.kind == "server":
			L = clientSet(map[string]bool{actorKey: true}, pre, post)
			U = clientSet(after[lcP0], pre, post)
			if servicesCaused {
				L = map[uint64]bool{}
			}
		case m.Command == "TOPIC" && pi.kind == "name":
			exact(nil) // services-bound copy
		case m.Command == "NICK" && pi.key != "":
			s := o.sharers(pi.key, o.members)
			s[pi.key] = true
			exact(s)
		case m.Command == "NICK" && pi.kind == "none":
			exact(nil) // burst line for services
		case m.Command == "QUIT" && pi.key != "":
			s := o.sharers(pi.key, o.members)
			u := copySet(s)
			u[pi.key] = true
			l := copySet(s)
			delete(l, pi.key)
			for key := range ended {
				delete(l, key)
			}
			L, U = clientSet(l, pre, post), clientSet(u, pre, post)
		case m.Command == "MODE" && !strings.HasPrefix(p0, "#") && !servicesCaused:
			// a user mode change is sent to the user it is about, the answer to a mode
			// query (also an operator's query about somebody else) to the asker
			exact(ownerOf(p0))
			if asker := clientSet(map[string]bool{actorKey: true}, pre, post); idSetString(got) == idSetString(asker) {
				L, U = asker, asker
			}
		case m.Command == "KILL" || m.Command == "INVITE" || (m.Command == "MODE" && !strings.HasPrefix(p0, "#")):
			exact(ownerOf(p0))
		case m.Command == "PONG":
			exact(map[string]bool{actorKey: true})
		case m.Command == "SJOIN" || m.Command == "SERVER":
			exact(nil)
		default:
			o.rec.Count("unclassified_lines", 1)
			o.rec.Label("unclassified:" + kind)
			continue
		}
		o.rec.Count("lines_judged", 1)
		if !subset(L, got) || !subset(got, U) {
			sig := "recipients:" + kind + "/by:" + entryClass(e)
			if !o.rec.Known(sig) {
				want := "exactly " + idSetString(U)
				if idSetString(L) != idSetString(U) {
					want = "at least " + idSetString(L) + " and at most " + idSetString(U)
				}
				return vh.Failf(sig, "entry #%d (%s by session %d) %q produced line %q for client sessions %s, entitled: %s (services links exempt)", idx, e.Kind, e.Session, e.Data, ot.Data, idSetString(got), want)
			}
		}
		// identity
		if pi.kind == "user" || pi.kind == "pseudo" {
			want := pre.byKey[pi.key]
			if m.Command != "NICK" {
				if w, ok := post.byKey[pi.key]; ok {
					want = w
				}
			}
			if want == nil {
				sig := "identity:unknown-session/" + m.Command
				if !o.rec.Known(sig) {
					return vh.Failf(sig, "entry #%d %q produced line %q whose prefix names session 0x%x / nick %q which does not exist", idx, e.Data, ot.Data, pi.id, pi.name)
				}
			} else if want.nick != pi.name || want.user != pi.user {
				sig := "identity:stale-prefix/" + m.Command
				if !o.rec.Known(sig) {
					return vh.Failf(sig, "entry #%d %q produced line %q but session %s is %q!%q", idx, e.Data, ot.Data, pi.key, want.nick, want.user)
				}
			}
			if pi.kind == "user" && !servicesCaused && pi.id != e.Session {
				switch m.Command {
				case "PRIVMSG", "NOTICE", "JOIN", "PART", "KICK", "TOPIC", "MODE", "INVITE", "KILL":
					sig := "identity:foreign-prefix/" + m.Command
					if !o.rec.Known(sig) {
						return vh.Failf(sig, "entry #%d by session %d %q produced line %q that speaks as session 0x%x", idx, e.Session, e.Data, ot.Data, pi.id)
					}
				}
			}
		}
		if len(U) >= 2 {
			outsider := false
			for id := range allLive {
				if !U[id] {
					outsider = true
				}
			}
			if outsider {
				o.nontriv++
				if strings.HasPrefix(p0, "#") && o.kicked[lcP0] {
					o.sub["c12:line-to-channel-after-kick"] = true
				}
			}
		}
	}
	// commit the model and cross-check it against the instance
	o.members = after
	truth := truthMembers(i)
	// A session that authenticated as a services link after it had joined channels as a client is
	// outside the statement (DESIGN.md 0.5): the end of a link is not announced for its own
	// nickname. Its own membership is not compared, in either direction.
	for id := range o.everLink {
		k := fmt.Sprintf("c:%d", id)
		for _, set := range o.members {
			delete(set, k)
		}
		for _, set := range truth {
			delete(set, k)
		}
	}
	if d := diffMembers(o.members, truth); d != "" {
		sig := "membership-model-disagrees/after:" + entryClass(e)
		if !o.rec.Known(sig) {
			return vh.Failf(sig, "after entry #%d (%s by %d) %q the membership announced by the server (model) and the instance's membership differ: %s", idx, e.Kind, e.Session, e.Data, d)
		}
		// resynchronise so that one listed defect does not cascade
		o.members = truth
	}
	return nil
}

func diffMembers(model, truth map[string]map[string]bool) string {
	var d []string
	for c, set := range model {
		for k := range set {
			if !truth[c][k] {
				d = append(d, fmt.Sprintf("model has %s in %s, instance has not", k, c))
			}
		}
	}
	for c, set := range truth {
		for k := range set {
			if !model[c][k] {
				d = append(d, fmt.Sprintf("instance has %s in %s, model has not", k, c))
			}
		}
	}
	sort.Strings(d)
	if len(d) > 4 {
		d = d[:4]
	}
	return strings.Join(d, "; ")
}

func (o *c12Oracle) replace(i *IRCServer, idx int) (*IRCServer, *vh.Failure) {
	if o.restoreEvery == 0 || (idx+1)%o.restoreEvery != 0 {
		return i, nil
	}
	b, err := roundTrip(i)
	if err != nil {
		return i, nil // serialization errors are C03's subject
	}
	o.restores++
	return b, nil
}

func (o *c12Oracle) end(i *IRCServer) *vh.Failure { return nil }

func (o *c12Oracle) nontrivial() (bool, []string) {
	var l []string
	for k := range o.sub {
		l = append(l, k)
	}
	o.rec.Count("nontrivial_lines", int64(o.nontriv))
	return o.nontriv > 0, l
}

func TestVerifC12(t *testing.T) {
	standardTest(t, "C12", "TestVerifC12", runOpts{minLen: 10, maxLen: 100, captchaSometimes: true, gen: ircgen.Options{Bias: "membership"}},
		func(rec *vh.Recorder) oracle { return &c12Oracle{rec: rec} })
}
