package ircserver

// C15, thorough tier: coverage-guided native fuzzing of client histories (the
// decoder and base world of FuzzVerifC06) with the line oracle inside the
// target: every reply the state machine produces for any entry is judged as
// stored and as it arrives after the JSON transport of GET .../messages.
//
// The text of an entry is what the POST and DELETE handlers let through (valid
// UTF-8, cut at CR/LF/NUL: that sanitising is checked by the package main unit
// against the real handlers), so this unit decides the second half of the
// property: truncation, character boundaries, prefix and command of every line
// built from client text, for all commands instead of the relaying ones only.

import (
	"encoding/json"
	"strings"
	"testing"

	"verif.local/verif/ircgen"
	"verif.local/verif/vh"
)

func c15Transport(data string) string {
	b, err := json.Marshal(data)
	if err != nil {
		return data
	}
	var s string
	if json.Unmarshal(b, &s) != nil {
		return data
	}
	return s
}

func c15ProblemClass(p string) string {
	f := strings.Fields(p)
	if f[0] == "is" {
		return "too-long"
	}
	return f[0] + "-" + f[1]
}

func FuzzVerifC15Lines(f *testing.F) {
	rec := vh.NewWorker("C15", "FuzzVerifC15Lines")
	defer rec.Flush()
	run := func(data []byte) (*c06FuzzCase, *vh.Failure, bool) {
		hostile, toOthers := false, false
		judged := int64(0)
		c, fl, _, _ := fuzzHistory(rec, data, func(e ircgen.Entry, outs []out) *vh.Failure {
			if len(e.Data) >= 400 {
				hostile = true
			}
			for k := 0; k < len(e.Data) && !hostile; k++ {
				if e.Data[k] >= 0x80 || e.Data[k] < 0x20 {
					hostile = true
				}
			}
			for _, o := range outs {
				judged++
				for _, to := range o.To {
					if to != e.Session {
						toOthers = true
					}
				}
				if p := vh.LineProblem(o.Data); p != "" {
					sig := "malformed-line-in-output-stream:" + c15ProblemClass(p)
					if rec.Known(sig) {
						continue
					}
					return vh.Failf(sig, "entry %d (%s session %d) %q: reply %d.%d %s: %q", e.Id, e.Kind, e.Session, e.Data, o.Id, o.Reply, p, o.Data)
				}
				if p := vh.LineProblem(c15Transport(o.Data)); p != "" {
					sig := "malformed-line-served:" + c15ProblemClass(p)
					if rec.Known(sig) {
						continue
					}
					return vh.Failf(sig, "entry %d (%s session %d) %q: reply %d.%d, as JSON transport delivers it, %s: %q", e.Id, e.Kind, e.Session, e.Data, o.Id, o.Reply, p, c15Transport(o.Data))
				}
			}
			return nil
		})
		rec.Count("lines_judged", judged)
		if fl != nil && strings.HasPrefix(fl.Signature, "panic@") {
			// a crash is C06's finding, not a malformed line
			return c, nil, false
		}
		return c, fl, hostile && toOthers
	}
	if vh.Replaying() {
		for _, ff := range vh.ReplayFiles("C15", "FuzzVerifC15Lines") {
			var c c06FuzzCase
			if err := json.Unmarshal(ff.Case, &c); err != nil {
				f.Fatalf("bad replay case: %v", err)
			}
			if c2, fl, _ := run([]byte(c.Input)); fl != nil {
				rec.WriteFail(fl, c2)
				f.Fatalf("%v", fl)
			}
		}
		f.Skip("replay mode: saved cases re-executed")
	}
	for _, s := range c06FuzzSeeds {
		f.Add([]byte(s))
	}
	for _, unit := range []string{"x", "ü", "€", "😀", "a€"} {
		for _, pfx := range []string{"PRIVMSG #a :", "TOPIC #a :", "PART #a :", "QUIT :", "AWAY :", "KICK #a bob :", "NICK ", "PRIVMSG bob,#a :", "JOIN #", "USER u 0 * :", "MODE #a +k ", "KILL bob :", "INVITE bob #"} {
			f.Add([]byte("00" + pfx + strings.Repeat(unit, 520/len(unit)) + "\n11WHOIS alice\n22TOPIC #a\n55NICK e\n55USER " + strings.Repeat(unit, 100) + " 0 * :" + strings.Repeat(unit, 200)))
		}
	}
	f.Fuzz(func(t *testing.T, data []byte) {
		c, fl, nt := run(data)
		rec.Case(vh.FingerprintBytes(data), nt, nil, func() interface{} { return c })
		if fl != nil {
			rec.WriteFail(fl, c)
			t.Fatalf("%v", fl)
		}
	})
}
