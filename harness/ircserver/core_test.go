package ircserver

// Shared core of the package ircserver harnesses (overlaid into
// internal/ircserver at check time): applying one committed entry exactly as
// FSM.applyRobustMessage does, the ground-truth World snapshot for the
// generator, the reflection walk used for state comparison, and the
// generate-and-execute runner with pluggable oracles.

import (
	"encoding/json"
	"fmt"
	"io"
	"log"
	"runtime/debug"
	"sort"
	"strings"
	"testing"
	"time"

	"github.com/robustirc/robustirc/internal/config"
	"github.com/robustirc/robustirc/internal/robust"
	"gopkg.in/sorcix/irc.v2"
	"pgregory.net/rapid"
	"verif.local/verif/ircgen"
	"verif.local/verif/vh"
)

func init() {
	log.SetOutput(io.Discard)
}

const networkName = "robustirc.net"

type out struct {
	Id    uint64   `json:"id"`
	Reply uint64   `json:"reply"`
	Data  string   `json:"data"`
	To    []uint64 `json:"to"`
}

func (o out) String() string { return fmt.Sprintf("%d.%d %q -> %v", o.Id, o.Reply, o.Data, o.To) }

func toMessage(e ircgen.Entry) *robust.Message {
	msg := &robust.Message{Id: robust.Id{Id: e.Id}, Session: robust.Id{Id: e.Session}, Data: e.Data, UnixNano: e.Nano, RemoteAddr: e.Addr, ClientMessageId: e.CMID, Revision: e.Rev}
	switch e.Kind {
	case "create":
		msg.Type = robust.CreateSession
	case "delete":
		msg.Type = robust.DeleteSession
	case "irc":
		msg.Type = robust.IRCFromClient
	case "config":
		msg.Type = robust.Config
	case "mod":
		msg.Type = robust.MessageOfDeath
	default:
		panic("unknown entry kind " + e.Kind)
	}
	return msg
}

// applyEntry mirrors FSM.applyRobustMessage (statemachine.go); C01's package
// main unit runs the same histories through the real function and compares.
func applyEntry(i *IRCServer, e ircgen.Entry) (res []out, pan string) {
	defer func() {
		if r := recover(); r != nil {
			st := string(debug.Stack())
			var fr []string
			for _, l := range strings.Split(st, "\n") {
				if strings.Contains(l, "/internal/ircserver/") && !strings.Contains(l, "zz_verif") && strings.Contains(l, ".go:") {
					f := strings.TrimSpace(strings.Split(l, " +0x")[0])
					if k := strings.LastIndex(f, "/"); k >= 0 {
						f = f[k+1:]
					}
					fr = append(fr, f)
				}
			}
			if len(fr) > 2 {
				fr = fr[:2]
			}
			pan = fmt.Sprintf("%v @ %s", r, strings.Join(fr, " < "))
		}
	}()
	msg := toMessage(e)
	var reply *Replyctx
	switch msg.Type {
	case robust.MessageOfDeath:
		i.UpdateLastClientMessageID(msg)
	case robust.CreateSession:
		i.CreateSession(msg.Id, msg.Data, msg.Timestamp())
	case robust.DeleteSession:
		if _, err := i.GetSession(msg.Session); err == nil {
			reply = i.ProcessMessage(msg, irc.ParseMessage("QUIT :"+string(msg.Data)))
			i.SetLastProcessed(robust.Id{Id: msg.Id.Id})
			i.MaybeDeleteSession(msg.Session)
		}
	case robust.IRCFromClient:
		if err := i.UpdateLastClientMessageID(msg); err == nil {
			reply = i.ProcessMessage(msg, irc.ParseMessage(msg.Data))
			i.SetLastProcessed(robust.Id{Id: msg.Session.Id})
			i.MaybeDeleteSession(msg.Session)
		}
	case robust.Config:
		if newCfg, err := config.FromString(msg.Data); err == nil {
			i.ConfigMu.Lock()
			i.Config = newCfg
			i.Config.Revision = msg.Revision
			i.ConfigMu.Unlock()
		}
	}
	if reply != nil {
		for _, m := range reply.Messages {
			o := out{Id: m.Id.Id, Reply: m.Id.Reply, Data: m.Data}
			for k, v := range m.InterestingFor {
				if v {
					o.To = append(o.To, k)
				}
			}
			sort.Slice(o.To, func(a, b int) bool { return o.To[a] < o.To[b] })
			res = append(res, o)
		}
	}
	return
}

func newServer(cfgTOML string, creation time.Time) *IRCServer {
	i := NewIRCServer(networkName, creation)
	if cfgTOML != "" {
		c, err := config.FromString(cfgTOML)
		if err != nil {
			panic("initial config does not parse: " + err.Error())
		}
		i.Config = c
	}
	return i
}

func commandNames() []string {
	var names []string
	for k := range Commands {
		names = append(names, k)
	}
	sort.Strings(names)
	return names
}

// snapshotWorld reads the ground truth the generator is allowed to see.
func snapshotWorld(i *IRCServer) *ircgen.World {
	w := &ircgen.World{}
	for id, s := range i.sessions {
		si := ircgen.SessInfo{Id: id.Id, Reply: id.Reply, Nick: s.Nick, User: s.Username, LoggedIn: s.loggedIn, Oper: s.Operator, Server: s.Server, Auth: s.auth, LastActivity: s.LastActivity.UnixNano(), RemoteAddr: s.RemoteAddr}
		for c := range s.Channels {
			if ch, ok := i.channels[c]; ok {
				si.Channels = append(si.Channels, ch.name)
			}
		}
		sort.Strings(si.Channels)
		w.Sessions = append(w.Sessions, si)
	}
	sort.Slice(w.Sessions, func(a, b int) bool {
		if w.Sessions[a].Id != w.Sessions[b].Id {
			return w.Sessions[a].Id < w.Sessions[b].Id
		}
		return w.Sessions[a].Reply < w.Sessions[b].Reply
	})
	for _, c := range i.channels {
		ci := ircgen.ChanInfo{Name: c.name, Key: c.key}
		for n, p := range c.nicks {
			disp := string(n)
			if s, ok := i.nicks[n]; ok {
				disp = s.Nick
			}
			ci.Members = append(ci.Members, disp)
			if p != nil && p[chanop] {
				ci.Ops = append(ci.Ops, disp)
			}
		}
		sort.Strings(ci.Members)
		sort.Strings(ci.Ops)
		for m := 'A'; m < 'z'; m++ {
			if c.modes[m] {
				ci.Modes += string(m)
			}
		}
		for _, b := range c.bans {
			ci.Bans = append(ci.Bans, b.pattern)
		}
		w.Channels = append(w.Channels, ci)
	}
	sort.Slice(w.Channels, func(a, b int) bool { return w.Channels[a].Name < w.Channels[b].Name })
	for h := range i.svsholds {
		w.Holds = append(w.Holds, string(h))
	}
	sort.Strings(w.Holds)
	return w
}

// ---- canonical state dump (reflection walk, reads unexported fields): see vh/dump.go ----

func dumpServer(i *IRCServer) map[string]string { return vh.DumpServer(i) }

func diffDumps(a, b map[string]string, max int) []string { return vh.DiffDumps(a, b, max) }

func genericPath(p string) string { return vh.GenericPath(p) }

// ---- cases, oracles, runner ----

type hcase struct {
	InitialConfig string           `json:"initial_config"`
	Entries       []ircgen.Entry   `json:"entries"`
	Params        map[string]int64 `json:"params,omitempty"`
}

type oracle interface {
	// begin is called once per case with the fresh primary instance; rt is nil when replaying.
	begin(i *IRCServer, c *hcase, rt *rapid.T)
	// pre is called before an entry is applied to the primary instance.
	pre(i *IRCServer, idx int, e ircgen.Entry)
	// post is called after; pan is non-empty when applying panicked.
	post(i *IRCServer, idx int, e ircgen.Entry, outs []out, pan string) *vh.Failure
	// end is called after the last entry.
	end(i *IRCServer) *vh.Failure
	// nontrivial reports whether the finished case is non-trivial for this property, and its labels.
	nontrivial() (bool, []string)
}

// histLabels tracks the generic label distribution of a history.
type histLabels struct {
	set map[string]bool
	n   int
}

func (h *histLabels) add(l string) {
	if h.set == nil {
		h.set = map[string]bool{}
	}
	h.set[l] = true
}

func (h *histLabels) observe(i *IRCServer, e ircgen.Entry, outs []out) {
	h.n++
	if e.Kind == "config" {
		h.add("has-config-entry")
	}
	if e.Kind == "mod" {
		h.add("has-message-of-death-entry")
	}
	if e.Kind == "delete" && len(outs) > 0 {
		h.add("end-by-delete")
	}
	for _, o := range outs {
		f := strings.Fields(o.Data)
		if len(f) < 2 {
			continue
		}
		cmd := f[1]
		if !strings.HasPrefix(f[0], ":") {
			cmd = f[0]
		}
		switch cmd {
		case "KICK":
			h.add("has-kick")
		case "381":
			h.add("has-operator")
		case "KILL":
			h.add("end-by-kill")
		case "QUIT":
			h.add("has-quit")
		case "ERROR":
			if strings.Contains(o.Data, "banned") {
				h.add("end-by-ban")
			} else if strings.Contains(o.Data, "not registered within") {
				h.add("end-by-unregistered-timeout")
			}
		case "NICK":
			if strings.HasPrefix(f[0], ":") && len(f) > 2 {
				old := strings.SplitN(f[0][1:], "!", 2)[0]
				if old != f[2] && ircgen.NickLower(old) == ircgen.NickLower(strings.TrimPrefix(f[2], ":")) {
					h.add("has-case-only-nick-change")
				}
			}
		}
	}
	pseudo := map[uint64]int{}
	for id := range i.sessions {
		if id.Reply != 0 {
			pseudo[id.Id]++
		}
	}
	for _, n := range pseudo {
		if n >= 2 {
			h.add("has-services-with-2+-pseudoclients")
		}
	}
	if len(i.serverSessions) > 0 {
		h.add("has-services-link")
	}
	for _, c := range i.channels {
		for _, m := range "ikxs" {
			if c.modes[m] {
				h.add("has-+" + string(m) + "-channel")
			}
		}
		if len(c.bans) > 0 {
			h.add("has-+b-channel")
		}
		if len(c.nicks) >= 3 {
			h.add("has-channel-with-3+-members")
		}
	}
}

func (h *histLabels) list() []string {
	var l []string
	for k := range h.set {
		l = append(l, k)
	}
	switch {
	case h.n <= 10:
		l = append(l, "len<=10")
	case h.n <= 30:
		l = append(l, "len11-30")
	default:
		l = append(l, "len>30")
	}
	sort.Strings(l)
	return l
}

type runOpts struct {
	// profileMix: every history draws one of the generator's profiles (plain, more privileged
	// operations — OPER, GLINE, KILL, MODE, INVITE —, more membership changes)
	profileMix bool
	// captchaSometimes: half of the histories start on a network with captcha URL and secret
	// configured (+x channels, captcha tokens as JOIN keys and in PASS)
	captchaSometimes bool
	gen              ircgen.Options
	minLen           int
	maxLen           int
	initial          string // initial config TOML ("" = family default)
	captcha          bool   // start from the captcha-enabled member of the family
}

// runGenerated draws and executes one history against orc. It returns the case and the failure, if any.
func runGenerated(rt *rapid.T, ro runOpts, orc oracle) (*hcase, *vh.Failure, []string) {
	initial := ro.initial
	def := ircgen.DefaultConfig()
	if ro.captcha || (ro.captchaSometimes && rapid.Bool().Draw(rt, "captcha_network")) {
		def = ircgen.CaptchaConfig()
	}
	if initial == "" {
		initial = def.TOML
	}
	c := &hcase{InitialConfig: initial, Params: map[string]int64{}}
	i := newServer(initial, time.Unix(0, 1))
	gopt := ro.gen
	gopt.Commands = commandNames()
	if ro.profileMix {
		gopt.Bias = rapid.SampledFrom([]string{"", "privilege", "membership"}).Draw(rt, "generator_profile")
	}
	gopt.InitialConfig = &def
	// ids as a real network has them (robust.MessageOffset + raft index) in two of three cases
	gopt.StartID = rapid.SampledFrom([]uint64{0, 4648398125000000000, 4648398125000000000 + 1<<33}).Draw(rt, "id_base")
	g := ircgen.New(gopt)
	n := rapid.IntRange(ro.minLen, ro.maxLen).Draw(rt, "history_len")
	orc.begin(i, c, rt)
	var hl histLabels
	for idx := 0; idx < n; idx++ {
		w := snapshotWorld(i)
		e := g.Next(rt, w)
		c.Entries = append(c.Entries, e)
		orc.pre(i, idx, e)
		outs, pan := applyEntry(i, e)
		if f := orc.post(i, idx, e, outs, pan); f != nil {
			return c, f, hl.list()
		}
		if pan != "" {
			// a panicking entry leaves the instance in an unspecified state; the case ends here
			break
		}
		hl.observe(i, e, outs)
		if tr, ok := orc.(transformer); ok {
			ni, f := tr.replace(i, idx)
			if f != nil {
				return c, f, hl.list()
			}
			i = ni
		}
	}
	return c, orc.end(i), hl.list()
}

// runReplay executes a recorded case.
func runReplay(c *hcase, orc oracle) *vh.Failure {
	i := newServer(c.InitialConfig, time.Unix(0, 1))
	orc.begin(i, c, nil)
	for idx, e := range c.Entries {
		orc.pre(i, idx, e)
		outs, pan := applyEntry(i, e)
		if f := orc.post(i, idx, e, outs, pan); f != nil {
			return f
		}
		if pan != "" {
			break
		}
		if tr, ok := orc.(transformer); ok {
			ni, f := tr.replace(i, idx)
			if f != nil {
				return f
			}
			i = ni
		}
	}
	return orc.end(i)
}

// transformer is implemented by oracles that swap the primary instance between
// entries (e.g. for a Marshal/Unmarshal round trip as a history step).
type transformer interface {
	replace(i *IRCServer, idx int) (*IRCServer, *vh.Failure)
}

// param draws a case parameter (generation) or reads it back (replay).
func param(c *hcase, rt *rapid.T, name string, min, max int) int {
	if rt != nil {
		v := rapid.IntRange(min, max).Draw(rt, name)
		if c.Params == nil {
			c.Params = map[string]int64{}
		}
		c.Params[name] = int64(v)
		return v
	}
	return int(c.Params[name])
}

func roundTrip(i *IRCServer) (*IRCServer, error) {
	blob, err := i.Marshal(0)
	if err != nil {
		return nil, err
	}
	b := NewIRCServer(networkName, time.Unix(0, 2))
	if _, err := b.Unmarshal(blob); err != nil {
		return nil, err
	}
	return b, nil
}

// standardTest is the body shared by the history-based properties.
func standardTest(t *testing.T, prop, test string, ro runOpts, mk func(rec *vh.Recorder) oracle) {
	rec := vh.New(prop, test)
	defer rec.Flush()
	if vh.Replaying() {
		for _, ff := range vh.ReplayFiles(prop, test) {
			var c hcase
			if err := json.Unmarshal(ff.Case, &c); err != nil {
				t.Fatalf("bad replay case: %v", err)
			}
			if f := runReplay(&c, mk(rec)); f != nil {
				rec.WriteFail(f, &c)
				t.Fatalf("replayed violation: %v", f)
			}
		}
		return
	}
	rapid.Check(t, func(rt *rapid.T) {
		orc := mk(rec)
		c, f, labels := runGenerated(rt, ro, orc)
		nt, extra := orc.nontrivial()
		rec.Case(vh.Fingerprint(c.Entries), nt, append(labels, extra...), func() interface{} { return c })
		if f != nil {
			rec.WriteFail(f, c)
			rt.Fatalf("%v", f)
		}
	})
}
