package ircserver

import "github.com/robustirc/robustirc/internal/robust"

func robustID(id uint64) robust.Id { return robust.Id{Id: id} }
