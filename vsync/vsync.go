// Package vsync is a drop-in for the part of package sync that
// internal/outputstream uses. While a Sched run is active, every Lock, Unlock,
// RLock, RUnlock, Cond.Wait and Cond.Broadcast of a controlled goroutine is a
// scheduling point of a cooperative scheduler: exactly one controlled goroutine
// runs at a time and a chooser (random draws, a replay file, a DFS stack)
// decides which enabled goroutine continues. Lock state is logical; a
// controlled goroutine never blocks on a real lock. Outside a run the
// primitives behave as plain uncontended locks.
package vsync

import (
	"fmt"
	"sync"
)

type Locker = sync.Locker
type Once = sync.Once
type WaitGroup = sync.WaitGroup
type Map = sync.Map
type Pool = sync.Pool

type OpKind int

const (
	OpStart OpKind = iota
	OpLock
	OpUnlock
	OpRLock
	OpRUnlock
	OpWaitPark   // release L and park on the condition variable
	OpWaitResume // woken: re-acquire L
	OpBroadcast
	OpYield // explicit scheduling point of the harness
	OpDone
)

func (k OpKind) String() string {
	return [...]string{"start", "Lock", "Unlock", "RLock", "RUnlock", "Wait(park)", "Wait(resume)", "Broadcast", "yield", "done"}[k]
}

type thread struct {
	id      int
	name    string
	pending OpKind
	mu      *RWMutex
	cond    *Cond
	grant   chan struct{}
	done    bool
	parked  bool
	panicv  interface{}
}

// Step is one granted operation.
type Step struct {
	Thread int    `json:"t"`
	Op     string `json:"op"`
	// Enabled is the number of enabled threads at the decision, Choice the index taken.
	Enabled int `json:"n"`
	Choice  int `json:"c"`
}

type Sched struct {
	mu      sync.Mutex
	active  bool
	cur     *thread
	threads []*thread
	yield   chan *thread
	Trace   []Step
	// OnGrant, when set, is called by the scheduler (no controlled goroutine runs)
	// right before a thread is resumed with its pending operation granted.
	OnGrant func(thread int, op OpKind, mutex *RWMutex)
	clock   int
}

// S is the scheduler of this process (one run at a time).
var S = &Sched{}

// Clock returns the number of grants so far in the current run.
func (s *Sched) Clock() int { return s.clock }

// Current returns the id of the controlled goroutine that is running, or -1.
func (s *Sched) Current() int {
	if !s.active || s.cur == nil {
		return -1
	}
	return s.cur.id
}

type RWMutex struct {
	writer  bool
	readers int
}

type Mutex struct{ rw RWMutex }

func (m *Mutex) Lock()   { m.rw.Lock() }
func (m *Mutex) Unlock() { m.rw.Unlock() }

func (s *Sched) at(k OpKind, m *RWMutex, c *Cond) {
	t := s.cur
	t.pending, t.mu, t.cond = k, m, c
	s.yield <- t
	<-t.grant
}

// Yield is an explicit scheduling point for harness code.
func Yield() {
	if S.active {
		S.at(OpYield, nil, nil)
	}
}

func (m *RWMutex) Lock() {
	if !S.active {
		if m.writer || m.readers > 0 {
			panic("vsync: Lock of a held mutex outside a scheduler run")
		}
		m.writer = true
		return
	}
	S.at(OpLock, m, nil)
	m.writer = true
}

func (m *RWMutex) Unlock() {
	if S.active {
		S.at(OpUnlock, m, nil)
	}
	if !m.writer {
		panic("vsync: Unlock of an unlocked mutex")
	}
	m.writer = false
}

func (m *RWMutex) RLock() {
	if !S.active {
		if m.writer {
			panic("vsync: RLock of a write-held mutex outside a scheduler run")
		}
		m.readers++
		return
	}
	S.at(OpRLock, m, nil)
	m.readers++
}

func (m *RWMutex) RUnlock() {
	if S.active {
		S.at(OpRUnlock, m, nil)
	}
	if m.readers <= 0 {
		panic("vsync: RUnlock of an unlocked mutex")
	}
	m.readers--
}

func (m *RWMutex) RLocker() Locker { return (*rlocker)(m) }

type rlocker RWMutex

func (r *rlocker) Lock()   { (*RWMutex)(r).RLock() }
func (r *rlocker) Unlock() { (*RWMutex)(r).RUnlock() }

type Cond struct {
	L       Locker
	waiters []*thread
}

func NewCond(l Locker) *Cond { return &Cond{L: l} }

func (c *Cond) rw() *RWMutex {
	switch l := c.L.(type) {
	case *RWMutex:
		return l
	case *Mutex:
		return &l.rw
	}
	panic("vsync: Cond with a foreign Locker")
}

func (c *Cond) Wait() {
	if !S.active {
		panic("vsync: Cond.Wait outside a scheduler run would block forever")
	}
	m := c.rw()
	S.at(OpWaitPark, m, c)
	m.writer = false
	t := S.cur
	t.parked = true
	c.waiters = append(c.waiters, t)
	S.at(OpWaitResume, m, c)
	m.writer = true
}

func (c *Cond) Broadcast() {
	if S.active {
		S.at(OpBroadcast, nil, c)
	}
	for _, t := range c.waiters {
		t.parked = false
	}
	c.waiters = nil
}

func (c *Cond) Signal() {
	if S.active {
		S.at(OpBroadcast, nil, c)
	}
	if len(c.waiters) > 0 {
		c.waiters[0].parked = false
		c.waiters = c.waiters[1:]
	}
}

func (t *thread) enabled() bool {
	switch t.pending {
	case OpLock:
		return !t.mu.writer && t.mu.readers == 0
	case OpRLock:
		return !t.mu.writer
	case OpWaitResume:
		return !t.parked && !t.mu.writer && t.mu.readers == 0
	}
	return true
}

// Result of a run.
type Result struct {
	Blocked []int    // ids of threads that could not finish (no thread was enabled)
	Parked  []int    // subset of Blocked that is parked on a condition variable
	Panics  []string // "<name>: <value>"
	PanicBy []int
	Trace   []Step
}

// Run executes the bodies as controlled goroutines. choose(n) picks one of n
// enabled threads (in thread-id order). maxSteps bounds the run (0 = 100000).
func (s *Sched) Run(names []string, bodies []func(), choose func(n int) int, maxSteps int) Result {
	s.mu.Lock()
	defer s.mu.Unlock()
	if maxSteps == 0 {
		maxSteps = 100000
	}
	s.active = true
	// choose may panic (rapid aborts a draw that way): never leave the scheduler active
	defer func() {
		s.active = false
		s.cur = nil
		s.OnGrant = nil
	}()
	s.yield = make(chan *thread)
	s.threads = nil
	s.Trace = nil
	s.clock = 0
	for i, b := range bodies {
		t := &thread{id: i, name: names[i], grant: make(chan struct{}), pending: OpStart}
		s.threads = append(s.threads, t)
		b := b
		go func() {
			<-t.grant
			defer func() {
				if r := recover(); r != nil {
					t.panicv = r
				}
				t.pending = OpDone
				t.done = true
				s.yield <- t
			}()
			b()
		}()
	}
	var res Result
	for steps := 0; ; steps++ {
		var en []*thread
		live := 0
		for _, t := range s.threads {
			if t.done {
				continue
			}
			live++
			if t.enabled() {
				en = append(en, t)
			}
		}
		if live == 0 {
			break
		}
		if len(en) == 0 || steps >= maxSteps {
			for _, t := range s.threads {
				if !t.done {
					res.Blocked = append(res.Blocked, t.id)
					if t.parked {
						res.Parked = append(res.Parked, t.id)
					}
				}
			}
			break
		}
		c := 0
		if len(en) > 1 {
			c = choose(len(en))
			if c < 0 || c >= len(en) {
				c = 0
			}
		}
		t := en[c]
		s.Trace = append(s.Trace, Step{Thread: t.id, Op: t.pending.String(), Enabled: len(en), Choice: c})
		s.clock++
		if s.OnGrant != nil {
			s.OnGrant(t.id, t.pending, t.mu)
		}
		s.cur = t
		t.grant <- struct{}{}
		<-s.yield
	}
	s.active = false
	s.cur = nil
	for _, t := range s.threads {
		if t.panicv != nil {
			res.Panics = append(res.Panics, fmt.Sprintf("%s: %v", t.name, t.panicv))
			res.PanicBy = append(res.PanicBy, t.id)
		}
	}
	res.Trace = s.Trace
	s.OnGrant = nil
	return res
}
