// Package ircgen generates histories of committed entries for the RobustIRC
// state machine: session creation/deletion, client lines from every role, a
// protocol-conforming services link with pseudo-clients, config updates,
// already-marked messages of death, a virtual clock. It imports nothing from
// robustirc; the harness supplies a World snapshot (ground truth) per step and
// the real command vocabulary.
//
// Every random choice is a rapid draw, so that histories shrink and replay.
package ircgen

import (
	"crypto/hmac"
	"crypto/sha256"
	"encoding/base64"
	"encoding/hex"
	"fmt"
	"sort"
	"strings"
	"time"

	"pgregory.net/rapid"
)

// Entry is one committed log entry.
type Entry struct {
	Kind    string `json:"kind"` // create | delete | irc | config | mod
	Id      uint64 `json:"id"`
	Session uint64 `json:"session,omitempty"`
	Data    string `json:"data"`
	Nano    int64  `json:"nano"`
	Addr    string `json:"addr,omitempty"`
	CMID    uint64 `json:"cmid,omitempty"`
	Rev     uint64 `json:"rev,omitempty"`
}

type SessInfo struct {
	Id, Reply    uint64
	Nick, User   string
	LoggedIn     bool
	Oper, Server bool
	Channels     []string
	Auth         string
	LastActivity int64
	RemoteAddr   string
}

type ChanInfo struct {
	Name    string
	Members []string // nicknames as displayed
	Ops     []string
	Modes   string
	Key     string
	Bans    []string
}

// World is the ground truth the harness reads from the running instance.
type World struct {
	Sessions []SessInfo
	Channels []ChanInfo
	Holds    []string
}

func (w *World) session(id uint64) *SessInfo {
	for i := range w.Sessions {
		if w.Sessions[i].Id == id && w.Sessions[i].Reply == 0 {
			return &w.Sessions[i]
		}
	}
	return nil
}

func (w *World) nickOwner(lc string) *SessInfo {
	for i := range w.Sessions {
		if w.Sessions[i].Nick != "" && NickLower(w.Sessions[i].Nick) == lc {
			return &w.Sessions[i]
		}
	}
	return nil
}

// NickLower is the RFC 2812 case mapping, stated independently of the code under test.
func NickLower(n string) string {
	var b strings.Builder
	for _, r := range strings.ToLower(n) {
		switch r {
		case '[':
			r = '{'
		case ']':
			r = '}'
		case '\\':
			r = '|'
		}
		b.WriteRune(r)
	}
	return b.String()
}

// Config is the generator's record of a configuration it produced.
type Config struct {
	TOML      string
	Opers     [][2]string
	Services  []string
	Secret    []byte
	HasSecret bool
	URL       string
	LoginCap  bool
	MaxSess   int
	MaxChan   int
	ExpSec    int
}

type Options struct {
	// BackwardsTime: timestamps are not monotonic (leader changes between nodes whose clocks differ
	// by up to 1.9s)
	BackwardsTime bool
	// OddTables: generated configurations may repeat an operator name or leave names and
	// passwords empty (only the configuration check uses it)
	OddTables bool
	// StartID is added to every entry id (and so to every session id): real networks run with
	// ids of robust.MessageOffset + raft index, i.e. around 4.6e18
	StartID  uint64
	Commands []string // keys of the real command table
	// Bias selects a weight profile: "", "membership" (C14/C17/C12), "privilege" (C13), "serialize" (C03)
	Bias string
	// NoConfig suppresses config entries (histories start with the instance's own config).
	NoConfig bool
	// InitialConfig is installed by the harness before the first entry; the generator needs to know it.
	InitialConfig *Config
	// WithMoD allows already-marked message-of-death entries.
	WithMoD bool
	// PanicCommand allows the test-only PANIC command (C07).
	PanicCommand bool
	// StartNano is the first timestamp.
	StartNano int64
	// MaxJump bounds clock jumps (0 = default: up to 12 minutes).
	NoBigJumps bool
	// LFInData allows LF in entry data (ircserver level only; the API cuts there).
	AllowLF bool
	// OmitDurations: generated configurations sometimes leave out SessionExpiration and/or
	// PostMessageCooloff (zero values in force)
	OmitDurations bool
}

type Gen struct {
	opt        Options
	nano       int64
	next       uint64
	pending    []Entry
	Cfg        Config
	rev        uint64
	created    []uint64
	cmid       map[uint64]uint64
	lastLine   map[uint64]Entry
	clientCmds []string
}

func New(opt Options) *Gen {
	g := &Gen{opt: opt, nano: opt.StartNano, next: opt.StartID, cmid: map[uint64]uint64{}, lastLine: map[uint64]Entry{}}
	if g.nano == 0 {
		g.nano = 1500000000e9
	}
	if opt.InitialConfig != nil {
		g.Cfg = *opt.InitialConfig
	}
	for _, c := range opt.Commands {
		if !strings.HasPrefix(c, "server_") {
			g.clientCmds = append(g.clientCmds, c)
		}
	}
	sort.Strings(g.clientCmds)
	return g
}

func (g *Gen) Nano() int64 { return g.nano }

// weighted choice; index 0 should be the simplest alternative (rapid shrinks towards it).
func pickW(t *rapid.T, label string, w ...int) int {
	sum := 0
	for _, x := range w {
		sum += x
	}
	r := rapid.IntRange(0, sum-1).Draw(t, label)
	for i, x := range w {
		if r < x {
			return i
		}
		r -= x
	}
	return len(w) - 1
}

func coin(t *rapid.T, label string, num, den int) bool {
	return rapid.IntRange(0, den-1).Draw(t, label) >= den-num
}

func pick(t *rapid.T, label string, s []string) string {
	if len(s) == 0 {
		return ""
	}
	return s[rapid.IntRange(0, len(s)-1).Draw(t, label)]
}

var nickPool = []string{"alice", "bob", "carol", "dave", "Alice", "BOB", "d[ave]", "d{ave}", "D\\x", "d|X", "eve", "x", "mallory", "trent_", "a-b", "`w^",
	// nicknames of the maximal lengths, and names that differ from them only behind the 30th character
	"n23456789o123456789p123456789q", "n23456789o123456789p123456789q1", "n23456789o123456789p123456789q2", "N23456789O123456789P123456789Qx"}
var svcNickPool = []string{"ChanServ", "NickServ", "OperServ", "BotServ", "HostServ"}
var badNickPool = []string{"", "1abc", "has space", "waytoolongnicknamewaytoolongnickname1", "ünï", "a,b", "#chan", "a!b", "x@y", "*", "$$"}
var chanPool = []string{"#a", "#b", "#c", "#A", "#secret", "#x", "#B", "#[x]", "#{x}"}
var badChanPool = []string{"", "a", "#", "#waytoolongchannelnamewaytoolongchannelname", "#with space", "#ü", "&local", "#a,#b", "#a,#b,#c", "#a,nochan", "#\x07bell", "#a:b"}
var addrPool = []string{"", "10.0.0.1", "10.0.0.2", "10.0.0.3", "2001:db8::1"}
var textPool = []string{"hi", "hello there", "", ":", "with :colon inside", "\x01ACTION waves\x01", "trailing space ", "#notachan", "a,b", "ü ber", "NICK evil"}

func (g *Gen) genNick(t *rapid.T, w *World) string {
	switch pickW(t, "nickkind", 5, 6, 2, 1, 1) {
	case 0:
		return pick(t, "poolnick", nickPool)
	case 1:
		var live []string
		for _, s := range w.Sessions {
			if s.Nick != "" {
				live = append(live, s.Nick)
			}
		}
		if len(live) == 0 {
			return pick(t, "poolnick", nickPool)
		}
		n := pick(t, "livenick", live)
		switch pickW(t, "nickcase", 6, 1, 1, 1) {
		case 1:
			return strings.ToUpper(n)
		case 2:
			return strings.ToLower(n)
		case 3:
			return strings.NewReplacer("[", "{", "]", "}", "\\", "|", "{", "[", "}", "]", "|", "\\").Replace(n)
		}
		return n
	case 2:
		return pick(t, "svcnick", svcNickPool)
	case 3:
		return pick(t, "badnick", badNickPool)
	default:
		return rapid.StringMatching(`[a-zA-Z\[\]\\{}|^_][a-zA-Z0-9\[\]\\{}|^_-]{0,8}`).Draw(t, "rndnick")
	}
}

func (g *Gen) genValidNick(t *rapid.T, w *World) string {
	for k := 0; k < 4; k++ {
		n := g.genNick(t, w)
		if validNick(n) {
			return n
		}
	}
	return "nick" + fmt.Sprint(rapid.IntRange(0, 99).Draw(t, "nicknum"))
}

func validNick(n string) bool {
	if n == "" || len(n) > 31 {
		return false
	}
	for i, c := range []byte(n) {
		letter := c >= 'A' && c <= 'Z' || c >= 'a' && c <= 'z'
		special := c >= 0x5B && c <= 0x60 || c >= 0x7B && c <= 0x7D
		digit := c >= '0' && c <= '9'
		if i == 0 {
			if !letter && !special {
				return false
			}
		} else if !letter && !special && !digit && c != '-' {
			return false
		}
	}
	return true
}

func (g *Gen) genChan(t *rapid.T, w *World) string {
	switch pickW(t, "chankind", 5, 6, 1, 1, 6) {
	case 4:
		// the popular channels: most sessions meet here
		return pick(t, "popularchan", []string{"#a", "#b"})
	case 0:
		return pick(t, "poolchan", chanPool)
	case 1:
		if len(w.Channels) == 0 {
			return pick(t, "poolchan", chanPool)
		}
		c := w.Channels[rapid.IntRange(0, len(w.Channels)-1).Draw(t, "livechan")].Name
		switch pickW(t, "chancase", 6, 1, 1) {
		case 1:
			return strings.ToUpper(c)
		case 2:
			return strings.ToLower(c)
		}
		return c
	case 2:
		return pick(t, "badchan", badChanPool)
	default:
		return "#" + rapid.StringMatching(`[a-zA-Z0-9\[\]{}_-]{1,6}`).Draw(t, "rndchan")
	}
}

func (g *Gen) genText(t *rapid.T) string {
	switch pickW(t, "textkind", 8, 2, 1, 1) {
	case 0:
		return pick(t, "pooltext", textPool)
	case 1:
		return rapid.StringN(0, 40, 80).Draw(t, "rndtext")
	case 2:
		n := rapid.IntRange(400, 700).Draw(t, "longlen")
		unit := pick(t, "longunit", []string{"x", "ab ", "ü", "€", "😀"})
		return strings.Repeat(unit, n/len(unit)+1)
	default:
		s := pick(t, "ctltext", []string{"a\rb", "a\x00b", "bell\x07", "tab\there", "\r", "x\r:evil!e@e PRIVMSG #a :forged"})
		if g.opt.AllowLF && coin(t, "lf", 1, 3) {
			s += "\n:evil!e@e PRIVMSG #a :forged"
		}
		return s
	}
}

// Token builds a captcha answer of the given class for the given purpose.
func (g *Gen) Token(class int, kind string, nano int64, arg string, challenge string) string {
	secret := g.Cfg.Secret
	purpose := "okay:" + kind + ":" + fmt.Sprint(nano) + ":" + arg
	switch class {
	case 2: // not solved: the challenge as handed out
		purpose = kind + ":" + fmt.Sprint(nano) + ":" + arg
	case 3: // expired
		purpose = "okay:" + kind + ":" + fmt.Sprint(nano-int64(6*time.Minute)) + ":" + arg
	case 4: // signed with another key
		secret = []byte("not the network secret, 32 bytes")
	case 6: // wrong number of purpose parts
		purpose = "okay:" + kind + ":" + fmt.Sprint(nano)
	case 7: // purpose timestamp is not a number
		purpose = "okay:" + kind + ":soon:" + arg
	}
	mac := hmac.New(sha256.New, secret)
	mac.Write([]byte(purpose))
	mac.Write([]byte(challenge))
	sum := mac.Sum(nil)
	if class == 1 { // wrong MAC
		sum[0] ^= 0x01
	}
	tok := strings.Join([]string{
		base64.StdEncoding.EncodeToString([]byte(purpose)),
		base64.StdEncoding.EncodeToString([]byte(challenge)),
		base64.StdEncoding.EncodeToString(sum),
	}, ".")
	switch class {
	case 5: // malformed
		return tok[:len(tok)/2]
	case 8:
		return "!!" + tok
	case 9:
		return strings.Join(strings.Split(tok, ".")[:2], ".")
	case 10: // more fields than the format has (each of them well-formed base64)
		return tok + "." + base64.StdEncoding.EncodeToString([]byte("extra"))
	case 11:
		return tok + ".AAAA.AAAA"
	case 12: // empty fields
		return ".."
	}
	return tok
}

func (g *Gen) genToken(t *rapid.T, kind, arg string, s *SessInfo) string {
	class := pickW(t, "tokclass", 8, 1, 3, 3, 1, 1, 1, 1, 1, 1, 1, 1, 1)
	ch := "00000000"
	if s != nil && len(s.Auth) >= 8 {
		ch = s.Auth[:8]
	}
	nano := g.nano
	if s != nil && coin(t, "toknano", 1, 2) {
		nano = s.LastActivity
	}
	return g.Token(class, kind, nano, arg, ch)
}

func (g *Gen) genConfig(t *rapid.T) Config {
	var c Config
	var b strings.Builder
	c.ExpSec = []int{600, 30, 120, 3600, 7200, 601}[pickW(t, "exp", 6, 1, 1, 1, 1, 1)]
	exp := time.Duration(c.ExpSec) * time.Second
	if pickW(t, "expfraction", 5, 1) == 1 {
		// durations are not always whole seconds
		exp += time.Duration(rapid.SampledFrom([]int{500, 250, 1, 999}).Draw(t, "expms")) * time.Millisecond
	}
	// a configuration may leave out either duration: the key then has its zero value (config.FromString
	// does not start from DefaultConfig), which every node has to keep through save and load as well
	omitExp, omitCooloff := false, false
	if g.opt.OmitDurations {
		omitExp, omitCooloff = pickW(t, "expomitted", 5, 1) == 1, pickW(t, "cooloffomitted", 5, 1) == 1
	}
	if omitExp {
		c.ExpSec = 0
	} else {
		fmt.Fprintf(&b, "SessionExpiration = %q\n", exp.String())
	}
	cooloff := []string{"0s", "0s", "0s", "0s", "0s", "1500ms", "250ms", "1.25s"}[pickW(t, "cooloff", 1, 1, 1, 1, 1, 1, 1, 1)]
	if !omitCooloff {
		fmt.Fprintf(&b, "PostMessageCooloff = %q\n", cooloff)
	}
	if pickW(t, "maxsess", 5, 1) == 1 {
		c.MaxSess = rapid.IntRange(2, 8).Draw(t, "maxsessn")
		fmt.Fprintf(&b, "MaxSessions = %d\n", c.MaxSess)
	}
	if pickW(t, "maxchan", 5, 1) == 1 {
		c.MaxChan = rapid.IntRange(1, 4).Draw(t, "maxchann")
		fmt.Fprintf(&b, "MaxChannels = %d\n", c.MaxChan)
	}
	switch pickW(t, "captcha", 3, 3, 1, 1) {
	case 1:
		c.URL = "http://captcha.example/"
		c.Secret = []byte(pick(t, "secret", []string{"0123456789abcdef0123456789abcdef", "ffffffffffffffffffffffffffffffff"}))
		c.HasSecret = true
	case 2:
		c.URL = "https://captcha.example/c?x=1"
	case 3:
		c.Secret = []byte("0123456789abcdef0123456789abcdef")
		c.HasSecret = true
	}
	if c.URL != "" {
		fmt.Fprintf(&b, "CaptchaURL = %q\n", c.URL)
	}
	if c.HasSecret {
		fmt.Fprintf(&b, "CaptchaHMACSecret = %q\n", hex.EncodeToString(c.Secret))
	}
	if c.URL != "" && c.HasSecret && pickW(t, "logincap", 7, 1) == 1 {
		c.LoginCap = true
		fmt.Fprintf(&b, "CaptchaRequiredForLogin = true\n")
	}
	nop := pickW(t, "nopers", 1, 4, 2)
	nsv := pickW(t, "nsvcs", 1, 5, 2)
	fmt.Fprintf(&b, "[IRC]\n")
	for k := 0; k < nop; k++ {
		op := [2]string{[]string{"op", "root"}[k], pick(t, "operpw", []string{"pw", "s3cret", "p:w"})}
		c.Opers = append(c.Opers, op)
		fmt.Fprintf(&b, "[[IRC.Operators]]\nName = %q\nPassword = %q\n", op[0], op[1])
	}
	if g.opt.OddTables {
		// tables an administrator can post although nothing sensible reads them: the same operator
		// name twice (old and new password during a rotation), empty name or password
		switch pickW(t, "oddopers", 3, 1, 1, 1) {
		case 1:
			fmt.Fprintf(&b, "[[IRC.Operators]]\nName = \"op\"\nPassword = \"rotated\"\n")
		case 2:
			fmt.Fprintf(&b, "[[IRC.Operators]]\nName = \"nopw\"\nPassword = \"\"\n")
		case 3:
			fmt.Fprintf(&b, "[[IRC.Operators]]\nName = \"\"\nPassword = \"anon\"\n")
		}
	}
	for k := 0; k < nsv; k++ {
		pw := []string{"mypass", "other"}[k]
		c.Services = append(c.Services, pw)
		fmt.Fprintf(&b, "[[IRC.Services]]\nPassword = %q\n", pw)
	}
	if g.opt.OddTables && pickW(t, "oddsvc", 4, 1) == 1 {
		fmt.Fprintf(&b, "[[IRC.Services]]\nPassword = \"\"\n")
	}
	if pickW(t, "bridges", 3, 1) == 1 {
		fmt.Fprintf(&b, "[TrustedBridges]\n\"bridgesecret\" = \"bridge one\"\n")
	}
	if pickW(t, "origins", 3, 1) == 1 {
		fmt.Fprintf(&b, "[WhitelistedOrigins]\n\"https://web.example\" = true\n")
	}
	if pickW(t, "banned", 4, 1) == 1 {
		fmt.Fprintf(&b, "[Banned]\n%q = \"spam\"\n", pick(t, "bannedaddr", addrPool[1:]))
	}
	c.TOML = b.String()
	return c
}

// DefaultConfig is a simple member of the family (one operator, one services password).
func DefaultConfig() Config {
	return Config{
		TOML:     "SessionExpiration = \"10m0s\"\nPostMessageCooloff = \"0s\"\n[IRC]\n[[IRC.Operators]]\nName = \"op\"\nPassword = \"pw\"\n[[IRC.Services]]\nPassword = \"mypass\"\n",
		Opers:    [][2]string{{"op", "pw"}},
		Services: []string{"mypass"},
		ExpSec:   600,
	}
}

// jumpMarker in front of a scripted line: eleven minutes pass before it.
const jumpMarker = "\x00+11m "

func (g *Gen) popPending() Entry {
	e := g.pending[0]
	g.pending = g.pending[1:]
	if strings.HasPrefix(e.Data, jumpMarker) {
		// scripted: this line comes eleven minutes after the previous one
		e.Data = strings.TrimPrefix(e.Data, jumpMarker)
		if !g.opt.NoBigJumps {
			g.nano += int64(11 * time.Minute)
		}
	}
	return e
}

func (g *Gen) tick(t *rapid.T) {
	if g.opt.BackwardsTime && coin(t, "clockbehind", 1, 12) {
		// the entry was accepted by a leader whose clock is behind the previous leader's (nodes may
		// differ by less than the election timeout of 2s): its timestamp is earlier than its predecessor's
		back := int64(rapid.IntRange(1, 1900).Draw(t, "behindms")) * int64(time.Millisecond)
		if g.nano-back > 1400000000e9 {
			g.nano -= back
		}
		return
	}
	switch pickW(t, "tick", 30, 12, 5, 1, 1, 2) {
	case 0:
		g.nano += int64(rapid.IntRange(1, 999).Draw(t, "us")) * 1000
	case 1:
		g.nano += int64(rapid.IntRange(1, 5).Draw(t, "s")) * int64(time.Second)
	case 2:
		g.nano += int64(rapid.IntRange(20, 70).Draw(t, "s2")) * int64(time.Second)
	case 3:
		if !g.opt.NoBigJumps {
			g.nano += int64(rapid.IntRange(4*60+50, 5*60+10).Draw(t, "s3")) * int64(time.Second)
		}
	case 4:
		if !g.opt.NoBigJumps {
			g.nano += int64(rapid.IntRange(9*60+50, 12*60).Draw(t, "s4")) * int64(time.Second)
		}
	case 5:
		// no progress: two entries with the same timestamp
	}
}

func (g *Gen) nextID(t *rapid.T) uint64 {
	g.next++
	if coin(t, "idgap", 1, 12) {
		g.next += uint64(rapid.IntRange(1, 3).Draw(t, "gap"))
	}
	return g.next
}

// Next produces the next entry given the ground truth.
func (g *Gen) Next(t *rapid.T, w *World) Entry {
	g.tick(t)
	id := g.nextID(t)
	var e Entry
	// scripted lines first (construction instead of rejection)
	if len(g.pending) > 0 && coin(t, "script", 3, 4) {
		e = g.popPending()
		if s := w.session(e.Session); s != nil {
			if s.Server && !strings.HasPrefix(e.Data, "NICK ") && !strings.HasPrefix(e.Data, "PING") {
				e = Entry{} // role changed: not conforming any more
			}
		}
	}
	if e.Kind == "" {
		e = g.fresh(t, w, id)
	}
	e.Id = id
	e.Nano = g.nano
	if e.Kind == "irc" {
		if e.CMID == 0 {
			g.cmid[e.Session]++
			e.CMID = g.cmid[e.Session]*7 + e.Session%5 + 1
		}
		g.lastLine[e.Session] = e
	}
	if e.Kind == "config" {
		e.Rev = g.rev
		g.rev++
	}
	return e
}

func (g *Gen) liveClientSessions(w *World) []uint64 {
	var ids []uint64
	for _, s := range w.Sessions {
		if s.Reply == 0 {
			ids = append(ids, s.Id)
		}
	}
	return ids
}

func (g *Gen) fresh(t *rapid.T, w *World, id uint64) Entry {
	live := g.liveClientSessions(w)
	wCreate, wDelete, wConfig, wMoD, wDead := 6, 2, 2, 0, 2
	if len(live) == 0 {
		wCreate = 60
	} else if len(live) < 4 {
		wCreate = 18
	} else if len(live) >= 8 {
		wCreate = 1
	}
	if g.opt.NoConfig {
		wConfig = 0
	} else if id == 1 {
		wConfig = 150
	}
	if g.opt.WithMoD {
		wMoD = 1
	}
	wScenario := 2
	if g.opt.Bias == "privilege" {
		wScenario = 8
	}
	switch pickW(t, "entrykind", 80, wCreate, wDelete, wConfig, wMoD, wDead, wScenario) {
	case 6:
		if g.scenario(t, w) && len(g.pending) > 0 {
			return g.popPending()
		}
	case 1:
		return g.create(t, w, id)
	case 2:
		if len(g.created) > 0 {
			sid := g.pickSession(t, w, live, true)
			return Entry{Kind: "delete", Session: sid, Data: pick(t, "quitmsg", []string{"bye", "", "Ping timeout (10m0s)", "with :colon", "a\rb", strings.Repeat("q", 600)})}
		}
		return g.create(t, w, id)
	case 3:
		if pickW(t, "cfgvalid", 7, 1) == 1 {
			bad := pick(t, "badtoml", []string{"this is not toml = = =", "SessionExpiration = 5", "[IRC\n", "MaxSessions = \"many\"", "\x00"})
			return Entry{Kind: "config", Data: bad}
		}
		c := g.genConfig(t)
		g.Cfg = c
		return Entry{Kind: "config", Data: c.TOML}
	case 4:
		if len(g.created) > 0 {
			sid := g.pickSession(t, w, live, false)
			g.cmid[sid]++
			return Entry{Kind: "mod", Session: sid, Data: "PANIC", CMID: g.cmid[sid]*7 + sid%5 + 1}
		}
		return g.create(t, w, id)
	case 5:
		// a line for a session that is dead or never existed
		sid := g.pickSession(t, w, live, true)
		if sid == 0 {
			return g.create(t, w, id)
		}
		if w.session(sid) == nil {
			return Entry{Kind: "irc", Session: sid, Data: g.clientLine(t, w, nil), Addr: pick(t, "addr", addrPool)}
		}
		return g.lineFor(t, w, sid)
	}
	if len(live) == 0 {
		return g.create(t, w, id)
	}
	sid := live[rapid.IntRange(0, len(live)-1).Draw(t, "session")]
	return g.lineFor(t, w, sid)
}

// scenario queues a scripted "restricted channel" exchange: a channel operator
// restricts its channel (+i/+k/+x/+b and combinations), optionally invites an
// outsider, and the outsider tries to join with keys / captcha answers of every
// class. Construction instead of waiting for coin flips to line up.
func (g *Gen) scenario(t *rapid.T, w *World) bool {
	var cands []int
	for ci, ch := range w.Channels {
		if len(ch.Ops) > 0 && validChan(ch.Name) {
			cands = append(cands, ci)
		}
	}
	if len(cands) == 0 {
		return false
	}
	ch := w.Channels[cands[rapid.IntRange(0, len(cands)-1).Draw(t, "scchan")]]
	op := w.nickOwner(NickLower(ch.Ops[rapid.IntRange(0, len(ch.Ops)-1).Draw(t, "scop")]))
	if op == nil || op.Server || op.Reply != 0 {
		return false
	}
	var outsiders []*SessInfo
	for i := range w.Sessions {
		s := &w.Sessions[i]
		if s.Reply != 0 || s.Server || !s.LoggedIn {
			continue
		}
		in := false
		for _, c := range s.Channels {
			if strings.EqualFold(c, ch.Name) {
				in = true
			}
		}
		if !in {
			outsiders = append(outsiders, s)
		}
	}
	if len(outsiders) == 0 {
		return false
	}
	out := outsiders[rapid.IntRange(0, len(outsiders)-1).Draw(t, "scoutsider")]
	key := ch.Key
	var script []Entry
	line := func(s *SessInfo, data string) {
		script = append(script, Entry{Kind: "irc", Session: s.Id, Data: data, Addr: s.RemoteAddr})
	}
	// rebirth: what a channel held for somebody (an invitation, a ban, a key) must end with the
	// channel: the outsider is invited (or banned), every member leaves, somebody re-creates the
	// name, restricts it, and the outsider joins
	if len(ch.Members) <= 3 && coin(t, "screbirth", 1, 4) {
		var members []*SessInfo
		for _, m := range ch.Members {
			ms := w.nickOwner(NickLower(m))
			if ms == nil || ms.Server || ms.Reply != 0 {
				return false
			}
			members = append(members, ms)
		}
		switch pickW(t, "screbirthleft", 4, 1, 1) {
		case 0:
			line(op, "INVITE "+out.Nick+" "+ch.Name)
		case 1:
			line(op, "MODE "+ch.Name+" +b "+out.Nick+"!*@*")
		case 2:
			line(op, "MODE "+ch.Name+" +k oldkey")
		}
		for _, ms := range members {
			line(ms, "PART "+ch.Name)
		}
		founder := members[rapid.IntRange(0, len(members)-1).Draw(t, "screbirthfounder")]
		line(founder, "JOIN "+ch.Name)
		for _, r := range pick(t, "screbirthrestr", []string{"i", "x", "i", "ik", ""}) {
			switch r {
			case 'i', 'x':
				line(founder, "MODE "+ch.Name+" +"+string(r))
			case 'k':
				line(founder, "MODE "+ch.Name+" +k newkey")
			}
		}
		line(out, "JOIN "+ch.Name+pick(t, "screbirthkey", []string{"", "", " oldkey", " newkey"}))
		g.pending = append(script, g.pending...)
		return true
	}
	restr := pick(t, "screstr", []string{"i", "k", "x", "b", "ik", "xk", "xb", "ib", "kb", "xi", "", "is", "xs", "in"})
	for _, r := range restr {
		switch r {
		case 'i', 'x', 's':
			line(op, "MODE "+ch.Name+" +"+string(r))
		case 'n':
			line(op, "MODE "+ch.Name+" -n")
		case 'k':
			key = pick(t, "sckey", []string{"key", "k2"})
			line(op, "MODE "+ch.Name+" +k "+key)
		case 'b':
			mask := pick(t, "scmask", []string{out.Nick + "!*@*", "*!*@*", fmt.Sprintf("*!*@robust/0x%x", out.Id), "*!" + out.User + "@*", strings.ToUpper(out.Nick) + "!*@*"})
			line(op, "MODE "+ch.Name+" +b "+mask)
		}
	}
	if coin(t, "scinvite", 2, 5) {
		inviter := op
		// sometimes a plain member (not an operator) tries to invite
		if len(ch.Members) > len(ch.Ops) && coin(t, "scplaininviter", 1, 2) {
			for _, m := range ch.Members {
				isOp := false
				for _, o := range ch.Ops {
					if o == m {
						isOp = true
					}
				}
				if ms := w.nickOwner(NickLower(m)); !isOp && ms != nil && !ms.Server && ms.Reply == 0 {
					inviter = ms
				}
			}
		}
		line(inviter, "INVITE "+out.Nick+" "+ch.Name)
	}
	joins := rapid.IntRange(1, 2).Draw(t, "scjoins")
	for j := 0; j < joins; j++ {
		k := ""
		switch pickW(t, "scjoinkey", 3, 2, 3, 1) {
		case 0:
			k = key
		case 1:
			k = pick(t, "scwrongkey", []string{"wrong", "", "KEY"})
		case 2:
			if g.Cfg.HasSecret {
				k = g.genToken(t, "join", ch.Name, out)
			} else {
				k = key
			}
		}
		if k != "" {
			k = " " + k
		}
		line(out, "JOIN "+ch.Name+k)
		if j == 0 && joins == 2 {
			line(out, "PART "+ch.Name)
		}
	}
	g.pending = append(script, g.pending...)
	return true
}

// CaptchaConfig is a member of the family with a captcha URL and secret.
func CaptchaConfig() Config {
	c := DefaultConfig()
	c.URL = "http://captcha.example/"
	c.Secret = []byte("0123456789abcdef0123456789abcdef")
	c.HasSecret = true
	c.TOML = "CaptchaURL = \"http://captcha.example/\"\nCaptchaHMACSecret = \"" + hex.EncodeToString(c.Secret) + "\"\n" + c.TOML
	return c
}

// lineFor produces a line for a live session according to its role (ground truth).
func (g *Gen) lineFor(t *rapid.T, w *World, sid uint64) Entry {
	s := w.session(sid)
	e := Entry{Kind: "irc", Session: sid}
	if s.Server {
		e.Data = g.servicesLine(t, w, s)
	} else {
		// occasionally retry the previous line verbatim (same client message id)
		if last, ok := g.lastLine[sid]; ok && coin(t, "retry", 1, 40) {
			return Entry{Kind: "irc", Session: sid, Data: last.Data, CMID: last.CMID, Addr: last.Addr}
		}
		e.Data = g.clientLine(t, w, s)
		e.Addr = pick(t, "addr", addrPool)
		if s.RemoteAddr != "" && coin(t, "sameaddr", 4, 5) {
			e.Addr = s.RemoteAddr
		}
	}
	return e
}

func (g *Gen) pickSession(t *rapid.T, w *World, live []uint64, preferDead bool) uint64 {
	if len(g.created) == 0 {
		return 0
	}
	switch pickW(t, "whichsession", 4, 3, 1) {
	case 0:
		if len(live) > 0 && !preferDead {
			return live[rapid.IntRange(0, len(live)-1).Draw(t, "lives")]
		}
		fallthrough
	case 1:
		return g.created[rapid.IntRange(0, len(g.created)-1).Draw(t, "anys")]
	default:
		return g.next + uint64(rapid.IntRange(0, 3).Draw(t, "futures")) // never existed (not yet)
	}
}

func (g *Gen) create(t *rapid.T, w *World, id uint64) Entry {
	g.created = append(g.created, id)
	auth := fmt.Sprintf("%016x%016x", id*2654435761, id)
	kind := pickW(t, "newsession", 10, 3, 2)
	if g.opt.Bias == "privilege" {
		kind = pickW(t, "newsession", 10, 2, 1)
	}
	hasServer := false
	for _, s := range w.Sessions {
		if s.Server {
			hasServer = true
		}
	}
	if hasServer && kind == 1 && coin(t, "secondlink", 3, 4) {
		kind = 0
	}
	switch kind {
	case 0: // registration script
		nick := g.genValidNick(t, w)
		user := pick(t, "user", []string{"u", "user", "~id", "üser", "u2"})
		var script []Entry
		if g.Cfg.LoginCap && coin(t, "logintoken", 4, 5) {
			tok := g.Token(pickW(t, "logintokclass", 8, 1, 1, 1), "login", g.nano, "", auth[:8])
			script = append(script, Entry{Kind: "irc", Session: id, Data: "PASS :captcha=" + tok})
		} else if coin(t, "passoper", 1, 8) && len(g.Cfg.Opers) > 0 {
			script = append(script, Entry{Kind: "irc", Session: id, Data: "PASS :oper=" + g.Cfg.Opers[0][0] + " " + g.Cfg.Opers[0][1]})
		}
		n := Entry{Kind: "irc", Session: id, Data: "NICK " + nick}
		u := Entry{Kind: "irc", Session: id, Data: "USER " + user + " 0 * :Real Name"}
		if coin(t, "userfirst", 1, 4) {
			script = append(script, u, n)
		} else {
			script = append(script, n, u)
		}
		// the privileged profile makes more of the sessions operators: what KILL and GLINE do is
		// only seen once an OPER has succeeded (seeds C01b, C01c)
		operW := 1
		if g.opt.Bias == "privilege" {
			operW = 5
		}
		switch pickW(t, "afterlogin", 1, 3, 1, operW, 6, 1) {
		case 5:
			// a client that joins channels and then authenticates as a services link: a link that is
			// a channel member itself (seed C14k: its end must take it out of its channels as well)
			pw := "mypass"
			if len(g.Cfg.Services) > 0 {
				pw = pick(t, "hybridpw", g.Cfg.Services)
			}
			script = append(script, Entry{Kind: "irc", Session: id, Data: "JOIN " + pick(t, "hybridjoin", []string{"#a", "#b", "#a,#b"})},
				Entry{Kind: "irc", Session: id, Data: "PASS :services=" + pw},
				Entry{Kind: "irc", Session: id, Data: "SERVER services.robustirc.net 1 :Services"})
		case 4:
			script = append(script, Entry{Kind: "irc", Session: id, Data: "JOIN " + pick(t, "popularjoin", []string{"#a", "#b", "#a,#b"})})
		case 1:
			script = append(script, Entry{Kind: "irc", Session: id, Data: "JOIN " + g.genChan(t, w)})
		case 2:
			script = append(script, Entry{Kind: "irc", Session: id, Data: "JOIN " + pick(t, "j1", chanPool) + "," + pick(t, "j2", chanPool)})
		case 3:
			if len(g.Cfg.Opers) > 0 {
				script = append(script, Entry{Kind: "irc", Session: id, Data: "OPER " + g.Cfg.Opers[0][0] + " " + g.Cfg.Opers[0][1]}, Entry{Kind: "irc", Session: id, Data: "JOIN " + g.genChan(t, w)})
			}
		}
		for i := range script {
			script[i].Addr = pick(t, "scriptaddr", addrPool)
		}
		g.pending = append(g.pending, script...)
	case 1: // services link
		pw := "mypass"
		if len(g.Cfg.Services) > 0 {
			pw = pick(t, "svcpw", g.Cfg.Services)
		}
		g.pending = append(g.pending,
			Entry{Kind: "irc", Session: id, Data: "PASS :services=" + pw},
			Entry{Kind: "irc", Session: id, Data: "SERVER services.robustirc.net 1 :Services for IRC Networks"})
		n := rapid.IntRange(1, 3).Draw(t, "pseudoclients")
		for k := 0; k < n; k++ {
			nick := svcNickPool[k]
			g.pending = append(g.pending, Entry{Kind: "irc", Session: id, Data: "NICK " + nick + " 1 1422134861 services localhost.net services.localhost.net 0 :" + nick + " Services"})
		}
	case 2: // nothing scripted: stays unregistered unless random lines register it
		if coin(t, "idleunregistered", 1, 3) {
			// a bridge connection that never registers but keeps pinging: unregistered sessions are
			// closed by the first ordinary command that arrives more than ten minutes after creation
			script := []Entry{}
			if coin(t, "idlenick", 1, 2) {
				script = append(script, Entry{Kind: "irc", Session: id, Data: "NICK " + g.genValidNick(t, w)})
			}
			script = append(script, Entry{Kind: "irc", Session: id, Data: jumpMarker + pick(t, "idlecmd", []string{"PING keepalive", "PING :x", "JOIN #a", "MOTD"})},
				Entry{Kind: "irc", Session: id, Data: "PING again"})
			g.pending = append(g.pending, script...)
		}
	}
	return Entry{Kind: "create", Data: auth}
}

// ---- client lines ----

func (g *Gen) clientLine(t *rapid.T, w *World, s *SessInfo) string {
	switch pickW(t, "linekind", 80, 8, 6, 3) {
	case 1:
		return g.mutate(t, g.wellFormed(t, w, s))
	case 2:
		// command with generic parameter shapes (also covers commands added to the table later)
		cmd := pick(t, "anycmd", g.clientCmds)
		if coin(t, "lowercase", 1, 6) {
			cmd = strings.ToLower(cmd)
		}
		n := rapid.IntRange(0, 4).Draw(t, "nparams")
		parts := []string{cmd}
		for k := 0; k < n; k++ {
			switch pickW(t, "ptype", 3, 3, 2, 1, 1) {
			case 0:
				parts = append(parts, g.genNick(t, w))
			case 1:
				parts = append(parts, g.genChan(t, w))
			case 2:
				parts = append(parts, pick(t, "ptok", []string{"+o", "-o", "+b", "+k", "0", "*", "+", "-", "1", "key"}))
			case 3:
				parts = append(parts, ":"+g.genText(t))
				k = n
			case 4:
				parts = append(parts, ":")
				k = n
			}
		}
		return strings.Join(parts, " ")
	case 3:
		return g.garbage(t)
	}
	return g.wellFormed(t, w, s)
}

func (g *Gen) garbage(t *rapid.T) string {
	switch pickW(t, "garbage", 3, 2, 1) {
	case 0:
		return pick(t, "fixedgarbage", []string{"", " ", ":", "::", ": :", ":pfx", ":pfx ", ":pfx CMD", "FOO bar", "123", "PRIVMSG", ":a!b@c PRIVMSG #a :x", "JOIN", "MODE", "KICK #a", "\r", "NICK\r", "@tag=1 PING x", "PING " + strings.Repeat("p ", 40)})
	case 1:
		return rapid.StringN(0, 30, 60).Draw(t, "rndgarbage")
	default:
		return strings.Repeat(pick(t, "gunit", []string{"A", "ü", " :", "# "}), rapid.IntRange(100, 400).Draw(t, "glen"))
	}
}

func (g *Gen) mutate(t *rapid.T, line string) string {
	toks := strings.Split(line, " ")
	switch pickW(t, "mutation", 2, 2, 2, 1, 1, 1, 1) {
	case 0: // drop a token
		if len(toks) > 1 {
			k := rapid.IntRange(1, len(toks)-1).Draw(t, "dropidx")
			toks = append(toks[:k:k], toks[k+1:]...)
		}
	case 1: // duplicate a token
		k := rapid.IntRange(0, len(toks)-1).Draw(t, "dupidx")
		toks = append(toks[:k+1:k+1], toks[k:]...)
	case 2: // swap two tokens
		if len(toks) > 2 {
			a := rapid.IntRange(1, len(toks)-1).Draw(t, "swapa")
			b := rapid.IntRange(1, len(toks)-1).Draw(t, "swapb")
			toks[a], toks[b] = toks[b], toks[a]
		}
	case 3: // stray colon
		k := rapid.IntRange(0, len(toks)-1).Draw(t, "colonidx")
		toks[k] = ":" + toks[k]
	case 4: // leading prefix
		toks = append([]string{":" + pick(t, "fakeprefix", []string{"alice", "ChanServ", "alice!u@robust/0x1", "robustirc.net"})}, toks...)
	case 5: // extra spaces
		return strings.Replace(line, " ", "  ", -1)
	case 6: // only the command and an empty trailing
		return toks[0] + " :"
	}
	return strings.Join(toks, " ")
}

func (g *Gen) modeLine(t *rapid.T, w *World, c string, n string) string {
	switch pickW(t, "chmode", 6, 6, 4, 4, 3, 2, 2, 1, 1) {
	case 0:
		return "MODE " + c + " " + pick(t, "simplemode", []string{"+i", "-i", "+s", "-s", "+t", "-t", "+n", "-n", "+x", "-x"})
	case 1:
		return "MODE " + c + " " + pick(t, "omode", []string{"+o", "-o"}) + " " + n
	case 2:
		return "MODE " + c + " +k " + pick(t, "key", []string{"key", "k2", "ü", "a,b"})
	case 3:
		return "MODE " + c + " " + pick(t, "bmode", []string{"+b", "-b"}) + " " + g.banMask(t, w, n)
	case 4:
		return "MODE " + c + pick(t, "querymode", []string{"", " +b", " b", " +"})
	case 5:
		return "MODE " + c + " -k" + pick(t, "minusk", []string{"", " key", " wrong"})
	case 6:
		return "MODE " + c + " " + pick(t, "combomode", []string{"+ik key", "+ki key", "+ob " + n + " *!*@*", "+b-b a!*@* a!*@*", "-o+o " + n + " " + n, "+oo " + n, "+itns", "+kk a b", "+z", "+é", "+o", "+k", "+bbb a b c", "+io " + n})
	case 7:
		return "MODE " + c + " +b " + pick(t, "weirdmask", []string{"(", "[a-", "\\", "a\\*b", "*", "**", "*!*@robust/0x", "*!*@robust/0xzz", "*!*@robust/0x99999999999999999999"})
	default:
		return "MODE " + c + " " + pick(t, "simplemode2", []string{"+i", "+s"}) + " extra args here"
	}
}

func (g *Gen) banMask(t *rapid.T, w *World, n string) string {
	switch pickW(t, "bankind", 4, 2, 2, 2, 1) {
	case 0:
		return n + "!*@*"
	case 1:
		return "*!*@*"
	case 2:
		// session reference, resolved against the remote address by the server
		// in front of the reference: a wildcard, or characters whose case mapping changes their
		// length in bytes (U+023A, U+023E grow from 2 to 3 bytes when lower-cased, U+212A and
		// U+0130 shrink) — offsets computed on a case-folded copy do not fit the original
		front := "*!*"
		if coin(t, "casemaplen", 1, 4) {
			front = strings.Repeat(pick(t, "casemapchar", []string{"Ⱥ", "Ⱦ", "K", "İ", "ȺȾ"}), rapid.IntRange(1, 24).Draw(t, "casemapn")) + "!*"
		}
		if len(w.Sessions) > 0 {
			s := w.Sessions[rapid.IntRange(0, len(w.Sessions)-1).Draw(t, "bansess")]
			return fmt.Sprintf("%s@robust/0x%x", front, s.Id)
		}
		return front + "@robust/0x1"
	case 3:
		return "*!*@" + pick(t, "banaddr", addrPool[1:])
	default:
		return pick(t, "glob", []string{"a*", "*e", "*!u@*", "d[ave]!*@*", "D{AVE}!*@*", n})
	}
}

func (g *Gen) wellFormed(t *rapid.T, w *World, s *SessInfo) string {
	n := g.genNick(t, w)
	c := g.genChan(t, w)
	// channel the session is in, when there is one (so that member-only paths are reached)
	if s != nil && len(s.Channels) > 0 && coin(t, "ownchan", 1, 2) {
		c = pick(t, "mychan", s.Channels)
	}
	// target lists: several channels in one command, fresh and existing ones in any order
	// (JOIN #new,#existing / PART #a,#b / PRIVMSG #a,nick / KICK #a,#b n1,n2)
	cl, nl := c, n
	if coin(t, "multitarget", 1, 5) {
		k := rapid.IntRange(2, 4).Draw(t, "ntargets")
		chans, nicks := []string{}, []string{}
		pos := rapid.IntRange(0, k-1).Draw(t, "ownpos")
		for j := 0; j < k; j++ {
			if j == pos {
				chans = append(chans, c)
				nicks = append(nicks, n)
			} else {
				chans = append(chans, g.genChan(t, w))
				nicks = append(nicks, g.genNick(t, w))
			}
		}
		cl, nl = strings.Join(chans, ","), strings.Join(nicks, ",")
	}
	// weights by profile
	type alt struct {
		w int
		f func() string
	}
	bias := g.opt.Bias
	wMember, wPriv, wRead := 1, 1, 1
	switch bias {
	case "membership":
		wMember = 3
	case "privilege":
		wPriv = 3
	case "serialize":
		wRead = 3
	}
	alts := []alt{
		{6 * wMember, func() string { return "NICK " + n }},
		{2, func() string {
			return "USER " + pick(t, "user", []string{"u", "user", "~id", "üser"}) + " 0 * :" + pick(t, "real", []string{"Real Name", "", "R"})
		}},
		{10 * wMember, func() string {
			key := ""
			switch pickW(t, "joinkey", 5, 2, 1, 2) {
			case 1:
				key = " " + pick(t, "key", []string{"key", "k2", "wrong", "ü", "a,b"})
			case 2:
				key = " k1,k2"
			case 3:
				if g.Cfg.HasSecret {
					key = " " + g.genToken(t, "join", c, s)
				}
			}
			// the real key, when the channel has one
			for _, ch := range w.Channels {
				if strings.EqualFold(ch.Name, c) && ch.Key != "" && coin(t, "realkey", 2, 3) {
					key = " " + ch.Key
				}
			}
			return "JOIN " + cl + key
		}},
		{4 * wMember, func() string { return "PART " + cl + pick(t, "partmsg", []string{"", " :bye"}) }},
		{4 * wMember * wPriv, func() string {
			if cl != c {
				return "KICK " + cl + " " + pick(t, "kicklist", []string{nl, g.memberOr(t, w, c, n)}) + pick(t, "kickmsg", []string{" :out", "", " :"})
			}
			return "KICK " + c + " " + g.memberOr(t, w, c, n) + pick(t, "kickmsg", []string{" :out", "", " :"})
		}},
		{8, func() string {
			return pick(t, "msgcmd", []string{"PRIVMSG", "NOTICE"}) + " " + pick(t, "msgtarget", []string{cl, c, n, nl, "$*", "$$", cl + "," + nl, n + "x", n + "1"}) + " :" + g.genText(t)
		}},
		{4 * wPriv, func() string {
			return "TOPIC " + c + pick(t, "topicarg", []string{"", " :", " :new topic", " :" + g.genText(t), " notrailing"})
		}},
		{10 * wPriv, func() string { return g.modeLine(t, w, c, g.memberOr(t, w, c, n)) }},
		{2, func() string {
			return "MODE " + n + pick(t, "umode", []string{"", " +i", " -i", " +G", " -G", " +o", " +iG", " +é"})
		}},
		{4 * wPriv, func() string { return "INVITE " + n + " " + c }},
		{3 * wPriv, func() string {
			if len(g.Cfg.Opers) > 0 && coin(t, "goodoper", 2, 3) {
				o := g.Cfg.Opers[rapid.IntRange(0, len(g.Cfg.Opers)-1).Draw(t, "whichoper")]
				return "OPER " + o[0] + " " + o[1]
			}
			return "OPER " + pick(t, "opername", []string{"op", "root", "nobody"}) + " " + pick(t, "operpass", []string{"pw", "wrong", "", "s3cret"})
		}},
		{2 * wPriv * wMember, func() string { return "KILL " + n + " :" + g.genText(t) }},
		{2 * wPriv * wMember, func() string { return "GLINE " + n + " :" + pick(t, "glinereason", []string{"spam", ""}) }},
		{2 * wMember, func() string { return "QUIT" + pick(t, "quitarg", []string{" :leaving", "", " :"}) }},
		{3 * wRead, func() string { return "WHOIS " + pick(t, "whoisarg", []string{n, nl, ":", n + " " + n}) }},
		{2 * wRead, func() string { return "WHO " + pick(t, "whoarg", []string{c, c, n, ""}) }},
		{3 * wRead, func() string { return "NAMES " + pick(t, "namesarg", []string{c, cl, "", c + ",#b"}) }},
		{2 * wRead, func() string { return "LIST" + pick(t, "listarg", []string{"", " " + c, " #a,#b", " ,", "  "}) }},
		{2, func() string { return "AWAY" + pick(t, "awayarg", []string{" :gone", "", " :", " :" + g.genText(t)}) }},
		{2 * wPriv, func() string { return "KNOCK " + c + pick(t, "knockarg", []string{"", " :let me in", " a b c"}) }},
		{2, func() string {
			return "PASS :" + g.passArg(t, s)
		}},
		{2, func() string { return "SERVER services.robustirc.net 1 :Services" }},
		{1 * wRead, func() string { return "ISON " + n + " " + g.genNick(t, w) }},
		{1 * wRead, func() string { return "USERHOST " + n + " " + g.genNick(t, w) }},
		{1, func() string {
			return pick(t, "alias", []string{"NS", "NICKSERV", "CS", "ChanServ", "OS", "MS", "HS", "BS"}) + " " + pick(t, "aliasarg", []string{"identify pw", "", ":help me", "register #a"})
		}},
		{3, func() string { return "PING" + pick(t, "pingarg", []string{" x", "", " :a b"}) }},
		{1, func() string { return "MOTD" }},
	}
	if g.opt.PanicCommand {
		alts = append(alts, alt{1, func() string { return "PANIC" }})
	}
	ws := make([]int, len(alts))
	for i, a := range alts {
		ws[i] = a.w
	}
	return alts[pickW(t, "command", ws...)].f()
}

func (g *Gen) passArg(t *rapid.T, s *SessInfo) string {
	parts := []string{}
	n := rapid.IntRange(1, 2).Draw(t, "passparts")
	for k := 0; k < n; k++ {
		switch pickW(t, "passkind", 3, 2, 2, 2, 1) {
		case 0:
			parts = append(parts, "nickserv="+pick(t, "nspw", []string{"hunter2", "a b", ""}))
		case 1:
			pw := "mypass"
			if len(g.Cfg.Services) > 0 && coin(t, "goodsvcpw", 3, 4) {
				pw = g.Cfg.Services[0]
			} else {
				pw = pick(t, "badsvcpw", []string{"wrong", "", "mypass "})
			}
			parts = append(parts, "services="+pw)
		case 2:
			if len(g.Cfg.Opers) > 0 && coin(t, "goodoperpass", 2, 3) {
				parts = append(parts, "oper="+g.Cfg.Opers[0][0]+" "+g.Cfg.Opers[0][1])
			} else {
				parts = append(parts, "oper=op wrong")
			}
		case 3:
			parts = append(parts, "captcha="+g.genToken(t, "login", "", s))
		default:
			parts = append(parts, pick(t, "plainpass", []string{"foo", "", "network=x", "session=y", "a:b"}))
		}
	}
	return strings.Join(parts, ":")
}

func (g *Gen) memberOr(t *rapid.T, w *World, c string, n string) string {
	for _, ch := range w.Channels {
		if strings.EqualFold(ch.Name, c) && len(ch.Members) > 0 && coin(t, "usemember", 3, 4) {
			return pick(t, "member", ch.Members)
		}
	}
	return n
}

// ---- services link: protocol-conforming lines only ----

func (g *Gen) servicesLine(t *rapid.T, w *World, link *SessInfo) string {
	// pseudo-clients of this link
	var pseudo []string
	for _, s := range w.Sessions {
		if s.Id == link.Id && s.Reply != 0 && s.Nick != "" {
			pseudo = append(pseudo, s.Nick)
		}
	}
	src := "services.robustirc.net"
	if len(pseudo) > 0 {
		src = pick(t, "pseudo", pseudo)
		if coin(t, "svccase", 1, 8) {
			src = strings.ToUpper(src)
		}
	} else if coin(t, "ghostsrc", 1, 2) {
		src = pick(t, "ghost", svcNickPool)
	}
	n := g.genValidNick(t, w)
	// prefer real client nicks as targets
	var clients []string
	for _, s := range w.Sessions {
		if s.Reply == 0 && !s.Server && s.Nick != "" {
			clients = append(clients, s.Nick)
		}
	}
	if len(clients) > 0 && coin(t, "clienttarget", 3, 4) {
		n = pick(t, "clientnick", clients)
	}
	// a services implementation never addresses its own link session as a user:
	// nicknames owned by a services link are not used as targets.
	linkNick := func(x string) bool {
		o := w.nickOwner(NickLower(x))
		return o != nil && o.Server
	}
	for k := 0; linkNick(n); k++ {
		n = g.genValidNick(t, w)
		if k > 4 {
			n = "nolink" + fmt.Sprint(rapid.IntRange(0, 99).Draw(t, "nolink"))
		}
	}
	c := g.genChan(t, w)
	for k := 0; k < 3 && !validChan(c); k++ {
		c = g.genChan(t, w)
	}
	anyc := c
	if coin(t, "anychan", 1, 6) {
		anyc = g.genChan(t, w)
	}
	text := g.genText(t)
	switch pickW(t, "svccmd", 5, 6, 4, 4, 5, 6, 3, 3, 3, 4, 3, 4, 3, 2, 3, 2, 3) {
	case 0:
		// introduce a pseudo-client (valid nickname, full parameter list)
		nn := pick(t, "intro", svcNickPool)
		if coin(t, "introrandom", 1, 4) {
			nn = g.genValidNick(t, w)
		}
		pfx := ""
		if coin(t, "introprefix", 1, 3) {
			pfx = ":services.robustirc.net "
		}
		return pfx + "NICK " + nn + " 1 1422134861 services localhost.net services.localhost.net 0 :" + pick(t, "introreal", []string{"Nickname Services", "", "x"})
	case 1:
		return ":" + src + " JOIN " + anyc + pick(t, "sjoinlist", []string{"", "", ",#b"})
	case 2:
		return ":" + src + " PART " + anyc
	case 3:
		m := g.memberOr(t, w, anyc, n)
		if linkNick(m) {
			m = n
		}
		return ":" + src + " KICK " + anyc + " " + m + " :" + text
	case 4:
		m := pick(t, "svcmode", []string{"+o", "-o", "+t", "-t", "+s", "+r", "-r", "+i", "-i", "+tr", "+z", "+ntr", "+oo", "+k", "+b"})
		arg := ""
		if strings.ContainsAny(m, "okb") {
			arg = " " + g.memberOr(t, w, anyc, n)
			if linkNick(strings.TrimSpace(arg)) {
				arg = " " + n
			}
		}
		return ":" + src + " MODE " + anyc + " " + m + arg
	case 5:
		return ":" + src + " " + pick(t, "svcmsg", []string{"PRIVMSG", "NOTICE"}) + " " + pick(t, "svctarget", []string{n, n, anyc}) + " :" + text
	case 6:
		return ":" + src + " TOPIC " + anyc + " " + src + " " + pick(t, "topicts", []string{"0", "1422134861", "1"}) + " :" + pick(t, "svctopic", []string{"", "locked by services", text})
	case 7:
		return ":" + src + " INVITE " + n + " " + anyc
	case 8:
		return ":" + src + " KILL " + n + " :" + pick(t, "killreason", []string{"die", "", text})
	case 9:
		return ":" + src + " SVSJOIN " + n + " " + anyc
	case 10:
		return ":" + src + " SVSPART " + n + " " + anyc
	case 11:
		// SVSNICK: regular client session onto a free nickname (C14 quantifier)
		if len(clients) > 0 {
			old := pick(t, "svsnickold", clients)
			for k := 0; k < 6; k++ {
				nn := g.genValidNick(t, w)
				if w.nickOwner(NickLower(nn)) == nil && !strings.HasSuffix(strings.ToLower(nn), "serv") {
					return "SVSNICK " + old + " " + nn + " :1"
				}
			}
			// the fall-back nickname must be free as well (C14 quantifier): "SVSNICK guest1003 guest1003"
			// was generated once the same number had been drawn twice, and renaming a session onto its own
			// nickname is outside the property's domain (DESIGN 0.5)
			if nn := "guest" + fmt.Sprint(rapid.IntRange(1000, 9999).Draw(t, "guest")); w.nickOwner(NickLower(nn)) == nil {
				return "SVSNICK " + old + " " + nn + " :1"
			}
		}
		return "PING :nosvsnick"
	case 12:
		m := pick(t, "svsmode", []string{"+r", "-r", "+d 5", "+d 0", "+rd 7", "+x", "r"})
		return pick(t, "svsmodepfx", []string{"", ":" + src + " "}) + "SVSMODE " + n + " " + m
	case 13:
		hold := g.genValidNick(t, w)
		return "SVSHOLD " + hold + pick(t, "holdarg", []string{" 5 :held", "", " 600 :Being held for registered user", " 1h :bad duration", " 0 :zero"})
	case 14:
		if len(pseudo) > 0 {
			return ":" + src + " QUIT :" + pick(t, "svcquit", []string{"gone", "", text})
		}
		return "PING :noquit"
	case 15:
		// the whole link quits
		if coin(t, "linkquit", 1, 4) {
			return "QUIT :" + pick(t, "linkquitmsg", []string{"services shutting down", ""})
		}
		return "PING :stay"
	default:
		return "PING " + pick(t, "svcping", []string{"x", ":a b"})
	}
}

func validChan(c string) bool {
	if len(c) == 0 || c[0] != '#' || len(c) > 33 {
		return false
	}
	for _, b := range []byte(c[1:]) {
		switch b {
		case 0, 7, '\r', '\n', ' ', ',', ':':
			return false
		}
	}
	return true
}

// GenConfig draws one member of the configuration family.
func GenConfig(t *rapid.T) Config {
	g := New(Options{})
	return g.genConfig(t)
}

// GenConfigOdd is GenConfig plus operator and services tables with duplicate or empty fields, and
// configurations that leave out a duration.
func GenConfigOdd(t *rapid.T) Config {
	g := New(Options{OddTables: true, OmitDurations: true})
	return g.genConfig(t)
}
