// vcheck is the driver of the verification machinery: it compiles the
// in-package harnesses against the current working tree of the repository
// (modfile + overlay, nothing is written into the repository), runs them as
// shards on all cores, merges their statistics, writes the evidence file and
// reports violations / known findings with the exit codes of the interface.
package main

import (
	"bytes"
	"encoding/json"
	"fmt"
	"os"
	"os/exec"
	"path/filepath"
	"sort"
	"strconv"
	"strings"
	"sync"
	"time"
)

// verifDir is /verif; background runs from a snapshot (vp run) point VERIF_DIR at the snapshot.
var verifDir = func() string {
	if d := os.Getenv("VERIF_DIR"); d != "" {
		return d
	}
	return "/verif"
}()

func repoDir() string {
	if r := os.Getenv("VERIF_REPO"); r != "" {
		return r
	}
	return "/repo"
}

func goEnv(extra ...string) []string {
	env := os.Environ()
	env = append(env, "GOFLAGS=-mod=mod", "GOPROXY=off", "GOSUMDB=off", "GOTOOLCHAIN=local", "GONOSUMDB=*", "GONOSUMCHECK=1")
	return append(env, extra...)
}

func fatal2(format string, args ...interface{}) {
	fmt.Printf("INCONCLUSIVE: "+format+"\n", args...)
	os.Exit(2)
}

func main() {
	if len(os.Args) < 2 {
		fmt.Println("usage: vcheck run <ID> [--tier quick|thorough] | replay <ID> <file> | manifest | list")
		os.Exit(2)
	}
	switch os.Args[1] {
	case "run":
		if len(os.Args) < 3 {
			fatal2("run needs a property id")
		}
		tier := os.Getenv("VERIF_TIER")
		for i := 3; i < len(os.Args); i++ {
			if os.Args[i] == "--tier" && i+1 < len(os.Args) {
				tier = os.Args[i+1]
			}
		}
		if tier != "thorough" {
			tier = "quick"
		}
		os.Exit(run(os.Args[2], tier, nil))
	case "replay":
		if len(os.Args) < 4 {
			fatal2("replay needs a property id and a file")
		}
		abs, _ := filepath.Abs(os.Args[3])
		os.Exit(run(os.Args[2], "quick", []string{abs}))
	case "manifest":
		writeManifest()
	case "list":
		for _, p := range props {
			fmt.Println(p.ID, p.Title)
		}
	default:
		fatal2("unknown command %q", os.Args[1])
	}
}

func seed() int64 {
	if v := os.Getenv("VERIF_SEED"); v != "" {
		if n, err := strconv.ParseInt(v, 10, 64); err == nil {
			return n
		}
	}
	return 1
}

func splitmix(x uint64) uint64 {
	x += 0x9e3779b97f4a7c15
	x = (x ^ (x >> 30)) * 0xbf58476d1ce4e5b9
	x = (x ^ (x >> 27)) * 0x94d049bb133111eb
	return x ^ (x >> 31)
}

type shardResult struct {
	races    []failFile
	unit     *unit
	idx      int
	dir      string
	exit     int
	timedOut bool
	output   string
	wall     time.Duration
}

type statsFile struct {
	Property  string            `json:"property"`
	Evals     int               `json:"evaluations"`
	NonTriv   []string          `json:"nontrivial_fingerprints"`
	Labels    map[string]int    `json:"labels"`
	Samples   []json.RawMessage `json:"samples"`
	Counters  map[string]int64  `json:"counters"`
	KnownHits map[string]int    `json:"known_hits"`
}

type failFile struct {
	Property  string          `json:"property"`
	Test      string          `json:"test"`
	Signature string          `json:"signature"`
	Message   string          `json:"message"`
	Case      json.RawMessage `json:"case"`
}

// build compiles the harness of one (package, mode) once per run.
func build(scratch string, u *unit) (string, error) {
	repo := repoDir()
	key := strings.ReplaceAll(u.Pkg, "/", "_") + "_" + u.Harness + "_" + u.Mode
	if u.Fuzz != "" {
		key += "_fuzz"
	}
	bdir := filepath.Join(scratch, "build", key)
	bin := filepath.Join(bdir, "harness.test")
	if _, err := os.Stat(bin); err == nil {
		return bin, nil
	}
	if err := os.MkdirAll(bdir, 0755); err != nil {
		return "", err
	}
	// alt.mod / alt.sum
	gomod, err := os.ReadFile(filepath.Join(repo, "go.mod"))
	if err != nil {
		return "", err
	}
	alt := string(gomod) + "\nrequire pgregory.net/rapid v1.3.0\nrequire verif.local/verif v0.0.0\nreplace verif.local/verif => " + verifDir + "\n"
	if err := os.WriteFile(filepath.Join(bdir, "alt.mod"), []byte(alt), 0644); err != nil {
		return "", err
	}
	gosum, _ := os.ReadFile(filepath.Join(repo, "go.sum"))
	vsum, _ := os.ReadFile(filepath.Join(verifDir, "go.sum"))
	if err := os.WriteFile(filepath.Join(bdir, "alt.sum"), append(append(gosum, '\n'), vsum...), 0644); err != nil {
		return "", err
	}
	// overlay
	overlay := map[string]string{}
	hdir := filepath.Join(verifDir, "harness", u.Harness)
	files, err := filepath.Glob(filepath.Join(hdir, "*_test.go"))
	if err != nil || len(files) == 0 {
		return "", fmt.Errorf("no harness files in %s", hdir)
	}
	for _, f := range files {
		overlay[filepath.Join(repo, u.Pkg, "zz_verif_"+filepath.Base(f))] = f
	}
	if u.Mode == "vsync" {
		src := filepath.Join(repo, "internal/outputstream/outputstream.go")
		b, err := os.ReadFile(src)
		if err != nil {
			return "", err
		}
		if n := bytes.Count(b, []byte("\n\t\"sync\"\n")); n != 1 {
			return "", fmt.Errorf("expected exactly one `\"sync\"` import line in %s, found %d", src, n)
		}
		b = bytes.Replace(b, []byte("\n\t\"sync\"\n"), []byte("\n\tsync \"verif.local/verif/vsync\"\n"), 1)
		dst := filepath.Join(bdir, "outputstream_vsync.go")
		if err := os.WriteFile(dst, b, 0644); err != nil {
			return "", err
		}
		overlay[src] = dst
	}
	ob, _ := json.Marshal(map[string]interface{}{"Replace": overlay})
	if err := os.WriteFile(filepath.Join(bdir, "overlay.json"), ob, 0644); err != nil {
		return "", err
	}
	args := []string{"test", "-c", "-modfile=" + filepath.Join(bdir, "alt.mod"), "-overlay=" + filepath.Join(bdir, "overlay.json"), "-tags", "verif", "-vet=off"}
	if u.Mode == "race" {
		args = append(args, "-race")
	}
	if u.Fuzz != "" {
		args = append(args, "-fuzz="+u.Fuzz)
	}
	args = append(args, "-o", bin, "./"+u.Pkg)
	cmd := exec.Command("go", args...)
	cmd.Dir = repo
	cmd.Env = goEnv()
	out, err := cmd.CombinedOutput()
	if err != nil {
		return "", fmt.Errorf("go %s: %v\n%s", strings.Join(args, " "), err, out)
	}
	return bin, nil
}

// buildRobustirc compiles the real binary for the cluster checks.
func buildRobustirc(scratch string) (string, error) {
	bin := filepath.Join(scratch, "build", "robustirc")
	if _, err := os.Stat(bin); err == nil {
		return bin, nil
	}
	os.MkdirAll(filepath.Dir(bin), 0755)
	cmd := exec.Command("go", "build", "-o", bin, ".")
	cmd.Dir = repoDir()
	env := []string{}
	for _, e := range os.Environ() {
		if strings.HasPrefix(e, "GOFLAGS=") {
			continue
		}
		env = append(env, e)
	}
	cmd.Env = append(env, "GOFLAGS=-mod=readonly", "GOPROXY=off", "GOSUMDB=off", "GOTOOLCHAIN=local")
	out, err := cmd.CombinedOutput()
	if err != nil {
		return "", fmt.Errorf("go build robustirc: %v\n%s", err, out)
	}
	return bin, nil
}

func run(id, tier string, replayFiles []string) int {
	start := time.Now()
	var p *prop
	for i := range props {
		if props[i].ID == id {
			p = &props[i]
		}
	}
	if p == nil {
		fatal2("unknown property %s", id)
	}
	scratch, err := os.MkdirTemp("", "vcheck-"+id+"-")
	if err != nil {
		fatal2("mktemp: %v", err)
	}
	defer os.RemoveAll(scratch)
	os.MkdirAll(filepath.Join(scratch, "gotmp"), 0755)

	base := uint64(seed())
	replayMode := len(replayFiles) > 0

	// regression replays first (seconds-long tier)
	regress, _ := filepath.Glob(filepath.Join(verifDir, "replays", "regress", id+"-*.json"))
	sort.Strings(regress)

	var results []*shardResult
	var mu sync.Mutex
	sem := make(chan struct{}, 16)
	var acquire sync.Mutex
	var wg sync.WaitGroup
	var buildBroken []string

	needBin := false
	for i := range p.Units {
		if p.Units[i].NeedsBinary {
			needBin = true
		}
	}
	robustBin := ""
	if needBin {
		robustBin, err = buildRobustirc(scratch)
		if err != nil {
			fatal2("%v", err)
		}
	}

	for ui := range p.Units {
		u := &p.Units[ui]
		if tier == "quick" && u.ThoroughOnly {
			continue
		}
		// development aids (not used by registered commands)
		if only := os.Getenv("VERIF_ONLY_UNIT"); only != "" && u.Name != only {
			continue
		}
		bin, err := build(scratch, u)
		if err != nil {
			// a harness that reaches into the package (a private function whose signature the tree
			// changed) no longer builds: that unit decides nothing, the other units still run, and a
			// violation one of them finds is a violation; without one the check is inconclusive
			buildBroken = append(buildBroken, fmt.Sprintf("build of %s harness failed (broken check, not a violation): %v", u.Name, err))
			continue
		}
		total := u.Quick
		timeout := u.QuickTimeoutS
		if tier == "thorough" {
			total = u.Thorough
			timeout = u.ThoroughTimeoutS
		}
		if fs := os.Getenv("VERIF_FUZZ_SECONDS"); fs != "" && u.Fuzz != "" {
			total, _ = strconv.Atoi(fs)
		}
		if timeout == 0 {
			if tier == "thorough" {
				timeout = 3600
			} else {
				timeout = 600
			}
		}
		shards := u.Shards
		if shards == 0 {
			shards = 16
		}
		if u.MinPerShard > 0 && total/shards < u.MinPerShard {
			shards = total / u.MinPerShard
			if shards < 1 {
				shards = 1
			}
		}
		type job struct {
			idx    int
			n      int
			replay string
		}
		var jobs []job
		if replayMode {
			jobs = append(jobs, job{idx: 0, replay: strings.Join(replayFiles, ",")})
		} else {
			if len(regress) > 0 && !u.NoReplay {
				jobs = append(jobs, job{idx: -1, replay: strings.Join(regress, ",")})
			}
			per := total / shards
			rem := total % shards
			for s := 0; s < shards; s++ {
				n := per
				if s < rem {
					n++
				}
				if n > 0 {
					jobs = append(jobs, job{idx: s, n: n})
				}
			}
		}
		for _, j := range jobs {
			j := j
			wg.Add(1)
			weight := u.Weight
			if weight < 1 {
				weight = 1
			}
			if weight > 16 {
				weight = 16
			}
			go func() {
				defer wg.Done()
				// all slots of one job are taken under a lock: two jobs that each hold a part of what
				// they need would wait for each other for ever
				acquire.Lock()
				for k := 0; k < weight; k++ {
					sem <- struct{}{}
				}
				acquire.Unlock()
				defer func() {
					for k := 0; k < weight; k++ {
						<-sem
					}
				}()
				dir := filepath.Join(scratch, fmt.Sprintf("%s-%d", u.Name, j.idx+1))
				os.MkdirAll(dir, 0755)
				tmp := filepath.Join(dir, "tmp")
				os.MkdirAll(tmp, 0755)
				sseed := splitmix(base*1000003+uint64(ui)*7919+uint64(j.idx+1)) | 1
				sseed &= 0x7fffffffffffffff
				args := []string{"-test.run", u.Run, "-test.timeout", fmt.Sprintf("%ds", timeout), "-test.count=1"}
				if u.Fuzz != "" && j.replay == "" {
					args = []string{"-test.run", "^$", "-test.fuzz", u.Fuzz, "-test.fuzztime", fmt.Sprintf("%ds", j.n), "-test.fuzzcachedir", filepath.Join(dir, "fuzzcache"), "-test.timeout", fmt.Sprintf("%ds", timeout)}
				} else if u.Rapid && j.replay == "" {
					args = append(args, fmt.Sprintf("-rapid.checks=%d", j.n), fmt.Sprintf("-rapid.seed=%d", sseed), "-rapid.nofailfile", "-rapid.shrinktime=20s")
				} else if u.Rapid {
					args = append(args, "-rapid.nofailfile")
				}
				if u.Verbose {
					args = append(args, "-test.v")
				}
				cmd := exec.Command(bin, args...)
				cmd.Dir = dir
				cmd.Env = append(os.Environ(),
					"TMPDIR="+tmp,
					"VERIF_OUT="+dir,
					"VERIF_KNOWN="+filepath.Join(verifDir, "known_findings.json"),
					"VERIF_N="+strconv.Itoa(j.n),
					"VERIF_SHARD_SEED="+strconv.FormatUint(sseed, 10),
					"VERIF_TIER="+tier,
					"VERIF_REPLAY="+j.replay,
					"VERIF_REPO="+repoDir(),
					"VERIF_ROBUSTIRC_BIN="+robustBin,
					"VERIF_SHARD="+strconv.Itoa(j.idx),
				)
				cmd.Env = append(cmd.Env, u.Env...)
				if u.Mode == "race" {
					cmd.Env = append(cmd.Env, "GORACE=log_path="+filepath.Join(dir, "race")+" halt_on_error=0 history_size=3")
				}
				var out bytes.Buffer
				cmd.Stdout = &out
				cmd.Stderr = &out
				t0 := time.Now()
				err := cmd.Run()
				r := &shardResult{unit: u, idx: j.idx, dir: dir, wall: time.Since(t0)}
				o := out.String()
				if len(o) > 1<<20 {
					o = o[:1<<19] + "\n...[cut]...\n" + o[len(o)-(1<<19):]
				}
				r.output = o
				if os.Getenv("VERIF_SHOW_OUTPUT") != "" {
					fmt.Printf("--- output of %s shard %d ---\n%s\n", u.Name, j.idx, o)
				}
				if err != nil {
					r.exit = 1
					if ee, ok := err.(*exec.ExitError); ok {
						r.exit = ee.ExitCode()
						if r.exit == 0 {
							r.exit = 1
						}
					}
					if strings.Contains(o, "panic: test timed out") {
						r.timedOut = true
					}
				}
				if u.Mode == "race" {
					r.races = parseRaceLogs(dir, u, id, sseed)
				}
				os.RemoveAll(tmp)
				mu.Lock()
				results = append(results, r)
				mu.Unlock()
			}()
		}
	}
	wg.Wait()

	// merge
	merged := statsFile{Labels: map[string]int{}, Counters: map[string]int64{}, KnownHits: map[string]int{}}
	nontriv := map[string]bool{}
	var violations []failFile
	broken := append([]string{}, buildBroken...)
	unitEvals := map[string]int{}
	sort.Slice(results, func(a, b int) bool {
		if results[a].unit.Name != results[b].unit.Name {
			return results[a].unit.Name < results[b].unit.Name
		}
		return results[a].idx < results[b].idx
	})
	for _, r := range results {
		sfs, _ := filepath.Glob(filepath.Join(r.dir, "stats-*.json"))
		for _, sfp := range sfs {
			b, err := os.ReadFile(sfp)
			if err != nil {
				continue
			}
			var sf statsFile
			if json.Unmarshal(b, &sf) != nil {
				continue
			}
			merged.Evals += sf.Evals
			unitEvals[r.unit.Name] += sf.Evals
			for _, fp := range sf.NonTriv {
				nontriv[r.unit.Name+":"+fp] = true
			}
			for k, v := range sf.Labels {
				merged.Labels[k] += v
			}
			for k, v := range sf.Counters {
				merged.Counters[k] += v
			}
			for k, v := range sf.KnownHits {
				merged.KnownHits[k] += v
			}
			if len(merged.Samples) < 12 {
				for _, s := range sf.Samples {
					if len(merged.Samples) < 12 && sampleOK(merged.Samples, r.unit.Name, s) {
						merged.Samples = append(merged.Samples, wrapSample(r.unit.Name, s))
					}
				}
			}
		}
		knownSet := map[string]bool{}
		for _, f := range loadKnown() {
			if f.Property == id {
				knownSet[f.Signature] = true
			}
		}
		raceViolation := false
		for _, rf := range r.races {
			if knownSet[rf.Signature] {
				merged.KnownHits[rf.Signature]++
				continue
			}
			violations = append(violations, rf)
			raceViolation = true
		}
		if raceViolation || (len(r.races) > 0 && strings.Contains(r.output, "race detected during execution of test") && !strings.Contains(r.output, "panic:")) {
			continue
		}
		if r.exit != 0 {
			fb, err := os.ReadFile(filepath.Join(r.dir, "fail.json"))
			if err == nil {
				var ff failFile
				if json.Unmarshal(fb, &ff) == nil {
					violations = append(violations, ff)
					continue
				}
			}
			why := "exit " + strconv.Itoa(r.exit)
			if r.timedOut {
				why = "time budget exhausted"
			}
			tail := r.output
			if len(tail) > 3000 {
				tail = tail[len(tail)-3000:]
			}
			broken = append(broken, fmt.Sprintf("unit %s shard %d: %s without a fail file\n%s", r.unit.Name, r.idx, why, tail))
		} else if fb, err := os.ReadFile(filepath.Join(r.dir, "fail.json")); err == nil {
			// exit 0 but a fail file: a harness that swallowed its own failure; treat as broken.
			broken = append(broken, fmt.Sprintf("unit %s shard %d: fail file although exit 0: %.300s", r.unit.Name, r.idx, fb))
		}
	}

	known := loadKnown()
	var knownLines []string
	for _, f := range known {
		if f.Property == id {
			knownLines = append(knownLines, fmt.Sprintf("KNOWN-FINDING: property=%s %s [signature %s; stepped over %d times in this run]", id, f.What, f.Signature, merged.KnownHits[f.Signature]))
		}
	}

	// evidence
	if !replayMode {
		labels := map[string]int{}
		for k, v := range merged.Labels {
			labels[k] = v
		}
		cov := map[string]interface{}{
			"evaluations":                 merged.Evals,
			"distinct_nontrivial":         len(nontriv),
			"rule":                        p.Rule,
			"samples":                     merged.Samples,
			"labels":                      labels,
			"counters":                    merged.Counters,
			"evaluations_by_unit":         unitEvals,
			"known_findings_stepped_over": merged.KnownHits,
		}
		if merged.Samples == nil {
			cov["samples"] = []interface{}{}
		}
		ev := map[string]interface{}{
			"property_id": id,
			"tier":        tier,
			"seed":        seed(),
			"level":       p.Level,
			"coverage":    cov,
			"assumptions": p.Assumptions,
			"wall_s":      time.Since(start).Seconds(),
			"violations":  len(violations),
		}
		b, _ := json.MarshalIndent(ev, "", " ")
		evdir := filepath.Join(verifDir, "evidence")
		if d := os.Getenv("VERIF_EVIDENCE_DIR"); d != "" {
			evdir = d
		}
		os.MkdirAll(evdir, 0755)
		os.WriteFile(filepath.Join(evdir, id+".json"), b, 0644)
		if tier == "thorough" && len(violations) == 0 && len(broken) == 0 {
			// the last complete thorough run is kept beside the file that every run rewrites
			os.MkdirAll(filepath.Join(evdir, "thorough"), 0755)
			os.WriteFile(filepath.Join(evdir, "thorough", id+".json"), b, 0644)
		}
	}

	if len(violations) > 0 {
		seen := map[string]bool{}
		foundDir := filepath.Join(verifDir, "replays", "found")
		if d := os.Getenv("VERIF_EVIDENCE_DIR"); d != "" {
			foundDir = filepath.Join(d, "found")
		}
		os.MkdirAll(foundDir, 0755)
		for _, v := range violations {
			if seen[v.Signature] {
				continue
			}
			seen[v.Signature] = true
			b, _ := json.MarshalIndent(v, "", " ")
			name := fmt.Sprintf("%s-%s-%s.json", id, sanitize(v.Signature), fingerprint(b))
			path := filepath.Join(foundDir, name)
			if replayMode {
				path = replayFiles[0]
			} else {
				os.WriteFile(path, b, 0644)
			}
			msg := v.Message
			if len(msg) > 1500 {
				msg = msg[:1500] + "…"
			}
			fmt.Printf("violation detail: signature=%s test=%s\n%s\n", v.Signature, v.Test, msg)
			fmt.Printf("VIOLATION property=%s replay=%s\n", id, path)
		}
		return 1
	}
	if len(broken) > 0 {
		for _, b := range broken {
			fmt.Println("BROKEN:", b)
		}
		fmt.Printf("INCONCLUSIVE: property=%s: %d shard(s) did not complete; this is not a violation\n", id, len(broken))
		return 2
	}
	for _, l := range knownLines {
		fmt.Println(l)
	}
	if replayMode {
		fmt.Printf("replay of %s: property %s held\n", strings.Join(replayFiles, ","), id)
		return 0
	}
	fmt.Printf("OK property=%s tier=%s seed=%d evaluations=%d distinct_nontrivial=%d wall=%.1fs\n", id, tier, seed(), merged.Evals, len(nontriv), time.Since(start).Seconds())
	if len(nontriv) < 2 {
		fmt.Printf("INCONCLUSIVE: property=%s: fewer than 2 non-trivial cases were generated\n", id)
		return 2
	}
	return 0
}

func sampleOK(have []json.RawMessage, unit string, s json.RawMessage) bool {
	n := 0
	for _, h := range have {
		if bytes.Contains(h, []byte(`"unit":"`+unit+`"`)) {
			n++
		}
	}
	return n < 4
}

func wrapSample(unit string, s json.RawMessage) json.RawMessage {
	b, _ := json.Marshal(map[string]interface{}{"unit": unit, "case": s})
	return b
}

func sanitize(s string) string {
	var b strings.Builder
	for _, r := range s {
		if r >= 'a' && r <= 'z' || r >= 'A' && r <= 'Z' || r >= '0' && r <= '9' || r == '-' || r == '_' || r == '.' {
			b.WriteRune(r)
		} else {
			b.WriteByte('_')
		}
	}
	out := b.String()
	if len(out) > 60 {
		out = out[:60]
	}
	return out
}

func fingerprint(b []byte) string {
	var h uint64 = 1469598103934665603
	for _, c := range b {
		h ^= uint64(c)
		h *= 1099511628211
	}
	return strconv.FormatUint(h&0xffffffff, 16)
}

type finding struct {
	Property  string `json:"property"`
	Signature string `json:"signature"`
	What      string `json:"what"`
}

func loadKnown() []finding {
	b, err := os.ReadFile(filepath.Join(verifDir, "known_findings.json"))
	if err != nil {
		return nil
	}
	var kf struct {
		Findings []finding `json:"findings"`
	}
	if err := json.Unmarshal(b, &kf); err != nil {
		fatal2("known_findings.json does not parse: %v", err)
	}
	return kf.Findings
}

// parseRaceLogs turns the race detector's reports (GORACE log_path files) into
// violations keyed by the sorted pair of the top robustirc frames of the two accesses.
func parseRaceLogs(dir string, u *unit, id string, seed uint64) []failFile {
	files, _ := filepath.Glob(filepath.Join(dir, "race.*"))
	var out []failFile
	seen := map[string]bool{}
	for _, f := range files {
		b, err := os.ReadFile(f)
		if err != nil {
			continue
		}
		for _, rep := range strings.Split(string(b), "WARNING: DATA RACE")[1:] {
			if k := strings.Index(rep, "=================="); k >= 0 {
				rep = rep[:k]
			}
			// the two access stacks are the first two paragraphs
			paras := strings.Split(strings.TrimSpace(rep), "\n\n")
			var tops []string
			for _, p := range paras {
				if len(tops) == 2 {
					break
				}
				head := strings.SplitN(p, "\n", 2)[0]
				if !(strings.Contains(head, "rite at ") || strings.Contains(head, "ead at ")) {
					continue
				}
				top := "?"
				lines := strings.Split(p, "\n")
				for i := 1; i+1 < len(lines); i += 2 {
					fn := strings.TrimSpace(lines[i])
					loc := strings.TrimSpace(lines[i+1])
					if strings.Contains(loc, "/internal/") || strings.Contains(fn, "robustirc/robustirc") || strings.Contains(fn, "robustirc.") {
						if strings.Contains(loc, "zz_verif") {
							continue
						}
						fn = strings.TrimSuffix(fn, "()")
						if j := strings.LastIndex(fn, "/"); j >= 0 {
							fn = fn[j+1:]
						}
						file := loc
						if j := strings.LastIndex(file, "/"); j >= 0 {
							file = file[j+1:]
						}
						if j := strings.Index(file, ":"); j >= 0 {
							file = file[:j]
						}
						top = file + ":" + fn
						break
					}
				}
				tops = append(tops, top)
			}
			harnessOnly := false
			for _, tp := range tops {
				if tp == "?" {
					harnessOnly = true // an access made by the harness itself, not by robustirc code
				}
			}
			if harnessOnly || len(tops) < 2 {
				continue
			}
			sort.Strings(tops)
			sig := "race:" + strings.Join(tops, "|")
			if seen[sig] {
				continue
			}
			seen[sig] = true
			if len(rep) > 6000 {
				rep = rep[:6000]
			}
			groups, _ := os.ReadFile(filepath.Join(dir, "groups.jsonl"))
			if len(groups) > 8000 {
				groups = groups[len(groups)-8000:]
			}
			c, _ := json.Marshal(map[string]interface{}{"race_report": rep, "shard_seed": seed, "groups_of_this_shard": string(groups)})
			out = append(out, failFile{Property: id, Test: u.Run, Signature: sig, Message: "the race detector reported: " + strings.SplitN(strings.TrimSpace(rep), "\n", 2)[0] + " (" + sig + ")", Case: c})
		}
	}
	return out
}
