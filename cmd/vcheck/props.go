package main

import (
	"encoding/json"
	"fmt"
	"os"
)

type unit struct {
	Name             string
	Pkg              string // repo-relative package directory ("." = package main)
	Harness          string // directory under /verif/harness
	Run              string // -test.run
	Mode             string // "", "race", "vsync"
	Rapid            bool   // driven by rapid flags; otherwise only VERIF_N / VERIF_SHARD_SEED
	Quick, Thorough  int    // total number of cases (or seconds for fuzz units)
	Shards           int
	MinPerShard      int
	Weight           int // how many of the 16 slots one shard occupies
	QuickTimeoutS    int
	ThoroughTimeoutS int
	Env              []string
	ThoroughOnly     bool
	NeedsBinary      bool
	NoReplay         bool
	Verbose          bool
	Fuzz             string
}

type prop struct {
	ID          string
	Title       string
	Level       string
	LevelText   string
	LevelNote   string
	Technique   string
	DesignRef   string
	Rule        string
	Assumptions []string
	Units       []unit
}

var props = []prop{
	{
		ID: "C19", Title: "time safeguard", Level: "exploration",
		LevelText:   "Generated measurements (true offset, request/response delays, silent peers, both flag settings) against a soundness oracle derived from the statement; the input space is a handful of integers and is sampled densely around the 2 s threshold.",
		LevelNote:   "Trusts that synchronizedWithNetwork is the only decision point (robustirc.go calls it through the two exported wrappers) and that a measurement is fully described by Start/Result/End.",
		Technique:   "property-based testing (rapid): soundness oracle + metamorphic relation over generated measurements",
		DesignRef:   "4/C19",
		Rule:        "cases are lists of 0-6 peers, each with a true clock offset, a request delay and a response delay (dense around +-2s, from ns to hours), answering or silent, under both settings of -disable_timesafeguard; non-trivial = some answering peer has |offset| in [1s,3s] or a round trip > 1s; distinct = hash of the concrete measurement list + flag. Unit network: cases are 0-5 peers served by real TLS status servers (in sync within 400ms / off by >= 4s / not answering in four ways), restart or -join path; non-trivial = at least one silent and one answering peer",
		Assumptions: []string{"a measurement is Start=t0, Result=t0+d1+offset, End=t0+d1+d2 with d1,d2 >= 0", "unit network runs in real time: a collection that takes longer than 0.7s and refuses in-sync peers is counted as inconclusive (label), never reported"},
		Units: []unit{
			{Name: "safeguard", Pkg: "internal/timesafeguard", Harness: "timesafeguard", Run: "^TestVerifC19$", Rapid: true, Quick: 160000, Thorough: 16000000, QuickTimeoutS: 300, ThoroughTimeoutS: 3000},
			{Name: "network", Pkg: "internal/timesafeguard", Harness: "timesafeguard", Run: "^TestVerifC19Network$", Rapid: true, Quick: 1600, Thorough: 40000, QuickTimeoutS: 600, ThoroughTimeoutS: 3000},
			nodeUnit("status", "^TestVerifC19Status$", 320, 8000),
		},
	},
}

func ircUnit(name, run string, quick, thorough int) unit {
	return unit{Name: name, Pkg: "internal/ircserver", Harness: "ircserver", Run: run, Rapid: true, Quick: quick, Thorough: thorough, QuickTimeoutS: 600, ThoroughTimeoutS: 3000}
}

// fuzzUnit is a native coverage-guided campaign (thorough tier only): one process with 16 workers for
// the given number of seconds; the oracle sits inside the target and writes the replay file itself.
func fuzzUnit(name, pkg, harness, target string, seconds int) unit {
	return unit{Name: name, Pkg: pkg, Harness: harness, Run: "^" + target + "$", Fuzz: "^" + target + "$", Thorough: seconds, Shards: 1, Weight: 16, ThoroughOnly: true, ThoroughTimeoutS: seconds + 600}
}

func init() {
	props = append(props, prop{
		ID: "C06", Title: "no client line can crash the state machine", Level: "exploration",
		LevelText:   "State-aware generated histories (all commands x roles x parameter shapes, mutated and garbage lines, conforming services traffic) applied through the same call sequence as FSM.applyRobustMessage with recover(); every line of every history is one evaluation of 'next line in a reachable state'.",
		LevelNote:   "Services lines are protocol-conforming by construction (role read from the instance); session auth strings have the API's length; config values are well-formed; panics are attributed by the top two ircserver frames.",
		Technique:   "property-based testing (rapid, state-aware history generator) with a crash oracle; native coverage-guided fuzzing of whole client histories in the thorough tier",
		DesignRef:   "4/C06",
		Rule:        "case = generated history of 5-80 committed entries; each IRC line is applied to the state the history built; non-trivial = history in which >=3 lines got past the registration/unknown-command/MinParams gate into a command handler; distinct = hash of the entry list. counters give the number of lines evaluated and how many reached a handler; labels class:<role>:<COMMAND> count histories that exercised that command in that role",
		Assumptions: []string{"lines from a services link are protocol-conforming (prefix where the protocol has one, full parameter lists, SVSNICK onto free nicknames)", "CreateSession data (the session secret) has at least 8 characters as the API always produces"},
		Units: []unit{ircUnit("lines", "^TestVerifC06$", 40000, 600000),
			fuzzUnit("fuzz", "internal/ircserver", "ircserver", "FuzzVerifC06", 300)},
	})
	props = append(props, prop{
		ID: "C01", Title: "replica determinism", Level: "exploration",
		LevelText:   "Differential execution: every generated history is applied entry by entry to three fresh instances with the same network name and different creation times; replies (ids, bytes with only numeric 003 masked, recipient sets) are compared after every entry and the full state (reflection walk over every field) at the end. Go randomises map iteration per loop, so an order dependence over >=2 elements shows with probability >=1/2 per pair of runs.",
		LevelNote:   "Unit a mirrors FSM.applyRobustMessage in package ircserver; unit b (package main) runs the real applyRobustMessage with a real output stream per instance and cross-checks the mirror.",
		Technique:   "property-based differential testing (rapid): same generated history on several instances, compare outputs and state",
		DesignRef:   "4/C01",
		Rule:        "case = generated history of 5-80 entries (clients, operators, services link with pseudo-clients, config changes, message-of-death entries, generated timestamps) run on 3 instances; non-trivial = some entry produced >=2 replies AND some iterated map held >=2 elements (channel with >=2 members, >=2 pseudo-clients, >=2 bans, session in >=2 channels); distinct = hash of the entry list",
		Assumptions: []string{"instances are created with the same network name; numeric 003 is the only tolerated difference"},
		Units:       []unit{ircUnit("ircserver", "^TestVerifC01$", 30000, 400000), mainUnit("fsm", "^TestVerifC01Main$", 1600, 40000)},
	})
	props = append(props, prop{
		ID: "C03", Title: "state serialization is complete", Level: "exploration",
		LevelText:   "Round trip + differential continuation: after EVERY entry of every generated history the state is marshalled into a fresh instance and compared field by field (reflection walk that covers fields added later, rebuilt indexes included) and through the API-visible configuration probes; from one generated cut point on, the never-serialized and the restored instance both execute the rest of the history and must answer identically.",
		LevelNote:   "nil and empty maps/slices are the same state in the walk (behaviour that distinguishes them is compared through probes); the server creation time (numeric 003) is exempt.",
		Technique:   "property-based testing (rapid): round-trip oracle at every cut point + differential continuation",
		DesignRef:   "4/C03",
		Rule:        "case = generated history of 8-80 entries with a generated cut point; round trip compared after every entry; non-trivial = the cut happened, the state at the cut held at least one of {nick-less session, nick but not logged in, operator, services link with >=2 pseudo-clients, invited session, keyed/banned/+x/+i channel, topic, svshold, away, solved captcha, non-default config} AND the continuation produced replies; distinct = hash of the entry list",
		Assumptions: []string{"continuations are drawn from the same generator as histories (biased to commands that read state)"},
		Units:       []unit{ircUnit("roundtrip", "^TestVerifC03$", 12000, 200000)},
	})
	props = append(props, prop{
		ID: "C12", Title: "messages reach exactly the entitled sessions under the real identity", Level: "exploration",
		LevelText:   "Every output line of every entry of every generated history is judged against lower/upper bounds on its non-services recipients derived per line kind from the statement, using a channel-membership model that is driven only by the events the server announces, and against the sender identity (nick, user, session-derived host) of the instance; the model's membership is cross-checked against the instance after every entry.",
		LevelNote:   "Services links are exempt as recipients. Line kinds that are not in the table are counted as unclassified and not judged (an unknown shape is never an alarm). Nickname ownership is read from the instance.",
		Technique:   "property-based testing (rapid) against an event-driven reference model of channel membership",
		DesignRef:   "4/C12",
		Rule:        "case = generated history of 10-100 entries biased to membership changes; every output line is an evaluated obligation (counter lines_judged); non-trivial history = contains a line with >=2 entitled recipients while some other live logged-in session is not entitled; distinct = hash of the entry list",
		Assumptions: []string{"services links may receive anything", "the table of line kinds (DESIGN.md C12) covers the commands in the tree; others are reported as unclassified"},
		Units:       []unit{ircUnit("recipients", "^TestVerifC12$", 40000, 500000)},
	})
	props = append(props, prop{
		ID: "C13", Title: "privileged effects require the privilege", Level: "exploration",
		LevelText:   "Pre/post diff of the privileged state (channel modes, key, bans, per-member operator flag, topic, membership, invitations, IRC-operator and services flags, network bans, session liveness) around every entry of generated histories; each difference must satisfy the authorisation predicate of the statement evaluated on the pre-state (inductive over the history because privilege changes are themselves checked). Captcha tokens of all validity classes are generated and verified independently.",
		LevelNote:   "Ban matching in the oracle is anchored (a subset of the unanchored server matching), the one-minute grace after a solved captcha is honoured, services-caused changes are authorised by the services flag whose acquisition is itself checked.",
		Technique:   "property-based testing (rapid): state-diff oracle with authorisation predicates",
		DesignRef:   "4/C13",
		Rule:        "case = generated history of 10-100 entries biased to MODE/KICK/INVITE/TOPIC/OPER/KILL/GLINE/JOIN with keys, invitations, bans and captcha tokens; non-trivial = history with >=3 privileged events (an authorised change of privileged state or a refusal 481/482/473/474/475/464); labels c13:<event>/<actor standing or restriction set> count histories; distinct = hash of the entry list",
		Assumptions: []string{"services links act with full privilege once authenticated", "predicates are evaluated on the implementation's own pre-state (see DESIGN.md section 6)"},
		Units:       []unit{ircUnit("privileges", "^TestVerifC13$", 30000, 400000)},
	})
	props = append(props, prop{
		ID: "C14", Title: "IRC state stays consistent", Level: "exploration",
		LevelText:   "Generated mixed histories (nick changes incl. case-only and []\\ / {}| variants, joins/parts/kicks/quits/kills/glines, deletions and expiries, services SVS* commands, small session/channel limits, Marshal/Unmarshal round trips as history steps) with an in-package invariant walk over the three indexes after every entry.",
		LevelNote:   "The case mapping and the validity grammar are re-stated in the harness independently of the code; SVSNICK only onto free nicknames and only for regular client sessions (the property's quantifier).",
		Technique:   "property-based testing (rapid, stateful history generation) with a state invariant checked after every step",
		DesignRef:   "4/C14",
		Rule:        "case = generated history of 20-120 entries biased to membership changes; invariant walk after every entry (and after every inserted snapshot round trip); non-trivial = history with a nick change of a channel member AND a forced removal (KICK/KILL) AND a session that ended while in >=2 channels; distinct = hash of the entry list",
		Assumptions: []string{"SVSNICK targets regular client sessions and free nicknames", "services introduce pseudo-clients with valid nicknames"},
		Units:       []unit{ircUnit("invariants", "^TestVerifC14$", 40000, 500000)},
	})
}

func init() {
	props = append(props, prop{
		ID: "C17", Title: "session lifecycle", Level: "exploration",
		LevelText:   "Three generated checks: (a) after every entry of a generated history (each prefix is a possible lag of the observed node) GetSession is queried for every id created so far, its neighbours and ids newer than anything applied, also after snapshot+restore of the prefix; (b) generated sets of sessions whose last activity lies on either side of the configured expiration (>= 2 s away from it, with services links and pseudo-clients) are swept by ExpireSessions and the result is compared with the exact expected set; (c) after every session end the nickname must be free (a new session takes it on a clone), no channel may list it and no later line may name it as recipient.",
		LevelNote:   "(b) uses the wall clock as the code does; cases keep >= 2 s distance from the threshold so that the test's own latency cannot decide. Pseudo-clients that outlive a killed hybrid link share the link's id and are not counted as 'the ended session being addressed'.",
		Technique:   "property-based testing (rapid): history invariants over lookups per applied prefix + exact-set oracle for the expiry sweep",
		DesignRef:   "4/C17",
		Rule:        "unit lifecycle: case = generated history of 10-100 entries, non-trivial = some prefix had a live and an already ended session AND an ended session had shared a channel with others; unit expiry: case = 1-7 sessions with generated idle times around one of 4 expirations, non-trivial = sessions on both sides of the threshold plus a services link with pseudo-clients; distinct = hash of the case",
		Assumptions: []string{"ids are unique and increasing (raft indexes)", "expiry cases stay >= 2 s away from the threshold"},
		Units: []unit{
			ircUnit("lifecycle", "^TestVerifC17$", 16000, 200000),
			ircUnit("expiry", "^TestVerifC17Expiry$", 20000, 300000),
		},
	})
}

func init() {
	props = append(props, prop{
		ID: "C09", Title: "LevelDB store honours the LogStore/StableStore contracts", Level: "fault_enumeration",
		LevelText:   "Generated operation sequences (batched and single appends in both encodings, StoreLogProto, range deletions of every shape, stable-store writes with keys that look like log indexes, close/reopen, JSON->protobuf conversion) are executed against the real store and an in-memory map and compared after every step through FirstIndex/LastIndex/GetLog/Get/GetUint64; in the kill unit the sequence runs in a child process that is SIGKILLed at a generated acknowledged operation and the reopened store must equal the model after some prefix not shorter than what was acknowledged.",
		LevelNote:   "Crash points are process kills (the page cache survives); power loss is out of reach and not claimed by the code. LogCommand payloads are valid replicated messages (the conversion decodes them); indexes stay below the stablestore- key space (raft indexes start at 1 and grow by 1).",
		Technique:   "model-based property testing (rapid) against a map model, with generated close/reopen and SIGKILL points",
		DesignRef:   "4/C09",
		Rule:        "case = 3-40 generated operations; non-trivial = a reopen (or kill) after a range deletion AND a stable-store write between log writes; distinct = hash of the operation list; labels give the encoding mix and how many cases convert JSON to protobuf",
		Assumptions: []string{"payloads of LogCommand entries are robust messages (JSON or 'p'+protobuf)", "log indexes < 2^56"},
		Units: []unit{
			{Name: "model", Pkg: "internal/raftstore", Harness: "raftstore", Run: "^TestVerifC09$", Rapid: true, Quick: 6000, Thorough: 120000, QuickTimeoutS: 600, ThoroughTimeoutS: 3000},
			{Name: "kill", Pkg: "internal/raftstore", Harness: "raftstore", Run: "^TestVerifC09Kill$", Rapid: true, Quick: 480, Thorough: 8000, QuickTimeoutS: 600, ThoroughTimeoutS: 3000},
		},
	})
}

func init() {
	props = append(props, prop{
		ID: "C18", Title: "every writer/reader pair round-trips", Level: "exploration",
		LevelText:   "Round-trip, differential and fixpoint oracles over generated values: replicated messages through 'p'+protobuf and legacy JSON with the id defaulting to the raft index only when absent, ProtoMessage against CopyToProtoMessage into a reused destination, raft log entries through every writer of the store against GetLog and raftlog.FromBytes, output batches through the hand-written codec; the readers that are inlined in package main (Snapshot, decodeProtobuf, the text-log dump) are compared in the package main unit.",
		LevelNote:   "Strings are valid UTF-8 (protobuf strings must be); recipient maps are true-valued as every producer writes them.",
		Technique:   "property-based testing (rapid): round-trip / differential / fixpoint oracles; native coverage-guided fuzzing of the message and batch codecs with the same oracles in the thorough tier",
		DesignRef:   "4/C18",
		Rule:        "messages: all 9 types, zero/small/random/max integers, texts from empty to 2.4 kB incl. control and multi-byte characters, 0-3 servers, non-trivial = >=3 non-zero optional fields; batches: 0-5 messages with 0-5 recipients, non-trivial = >=2 messages and one with >=2 recipients; log entries: all log types through all three writers in both modes, non-trivial = >=3 of term/extensions/append time/data/type non-zero; package main: generated histories applied through FSM.Apply with generated term/extensions/append time, then text-log dump compared row by row and snapshot+persist+restore compared entry by entry, non-trivial = an entry with extensions and >=2 client lines; distinct = hash of the value",
		Assumptions: []string{"text fields are valid UTF-8"},
		Units: []unit{
			{Name: "messages", Pkg: "internal/robust", Harness: "robust", Run: "^TestVerifC18Messages$", Rapid: true, Quick: 60000, Thorough: 3000000, QuickTimeoutS: 600, ThoroughTimeoutS: 3000},
			{Name: "batches", Pkg: "internal/outputstream", Harness: "outputstream", Run: "^TestVerifC18Batches$", Rapid: true, Quick: 60000, Thorough: 3000000, QuickTimeoutS: 600, ThoroughTimeoutS: 3000},
			{Name: "logentries", Pkg: "internal/raftstore", Harness: "raftstore", Run: "^TestVerifC18LogEntries$", Rapid: true, Quick: 3000, Thorough: 60000, QuickTimeoutS: 600, ThoroughTimeoutS: 3000},
			mainUnit("fsm", "^TestVerifC18Main$", 800, 16000),
			fuzzUnit("fuzz-messages", "internal/robust", "robust", "FuzzVerifC18Messages", 150),
			fuzzUnit("fuzz-batches", "internal/outputstream", "outputstream", "FuzzVerifC18Batches", 150),
		},
	})
}

func init() {
	props = append(props, prop{
		ID: "C08", Title: "output stream next-message lookup under every interleaving", Level: "exploration",
		LevelText:   "The output stream is compiled against a scheduler-controlled drop-in for package sync; generated programs (a writer thread adding batches in increasing id order and deleting oldest-first or non-existing ids, reader threads calling GetNext(x)/Get with x over 0, present, deleted, gap and ahead-of-the-node positions, cancel+InterruptGetNext steps) run under schedules drawn by rapid (unit random) or enumerated exhaustively by DFS per program (unit dfs). A versioned sorted-map model, advanced at the exact Unlock of each mutation, decides every return value; quiescence and the final interrupt decide blocking.",
		LevelNote:   "Interleavings are controlled at the granularity of the stream's lock operations; LevelDB internals run freely. A client that is ahead of the node gets the next added batch (the only caller compensates), which the oracle accepts.",
		Technique:   "property-based testing with a controlled scheduler (rapid-drawn and DFS-enumerated schedules) against a versioned reference model",
		DesignRef:   "4/C08",
		Rule:        "case = program (0-4 set-up operations, writer with 1-4 operations, 1-2 readers with 1-4 operations) + schedule; non-trivial = some GetNext/Get spanned at least one Add/Delete critical section between its invocation and its return; distinct = hash of program + schedule; unit dfs enumerates all schedules of 2-thread programs with <=3 operations each (label says how many programs were enumerated completely); unit sequential runs 5-60 operation programs (deletes of oldest/tail/middle/non-existing, >1000-batch bursts that churn the read cache) against a sorted map, non-trivial = a GetNext after a delete",
		Assumptions: []string{"batches are added in increasing id order by one goroutine (raft's FSM goroutine), deletions while readers are active are oldest-first"},
		Units: []unit{
			{Name: "random", Pkg: "internal/outputstream", Harness: "outputstream_vsync", Mode: "vsync", Run: "^TestVerifC08$", Rapid: true, Quick: 6000, Thorough: 300000, QuickTimeoutS: 600, ThoroughTimeoutS: 3000},
			{Name: "dfs", Pkg: "internal/outputstream", Harness: "outputstream_vsync", Mode: "vsync", Run: "^TestVerifC08DFS$", Rapid: true, Quick: 192, Thorough: 6000, QuickTimeoutS: 600, ThoroughTimeoutS: 3000, Env: []string{"VERIF_C08_MAXSCHED=1500"}},
			{Name: "sequential", Pkg: "internal/outputstream", Harness: "outputstream_vsync", Mode: "vsync", Run: "^TestVerifC08Seq$", Rapid: true, Quick: 3000, Thorough: 100000, QuickTimeoutS: 600, ThoroughTimeoutS: 3000},
		},
	})
}

func init() {
	props = append(props, prop{
		ID: "C04", Title: "exactly-once, in-order delivery on resume", Level: "exploration",
		LevelText:   "The real api.getMessages runs as a scheduler-controlled goroutine against vsync-built output streams of 1-3 nodes that hold generated prefixes of one output history, while a feeder goroutine per connection applies further batches; clients consume a generated number of messages (also inside a multi-reply batch), disconnect, and resume with the id of the last message on the same or another node (possibly one that has not applied that batch yet, or has compacted older batches). The concatenation of everything consumed must equal the session's message sequence.",
		LevelNote:   "The consumer applies the handler's one-line recipient filter; JSON streaming and supersede logic of the HTTP handler are exercised by the in-process node checks. The 250 ms back-off is real time and never used as a correctness signal.",
		Technique:   "property-based testing with a controlled scheduler (rapid-drawn interleavings) and a sequence oracle over the concatenated reads",
		DesignRef:   "4/C04",
		Rule:        "case = 1-7 batches (1-4 replies, recipient subsets of 3 sessions), 1-3 nodes with generated applied prefixes, 1-4 connections (node, batches applied meanwhile, messages consumed before the disconnect, compaction before reconnect) + one schedule per connection; non-trivial = >=2 connections and a reconnect inside a multi-reply batch or to a node that is behind the resume point; distinct = hash of case + schedules. Unit node: case = 1-10 generated IRC lines (multi-target commands, listings, NICK/QUIT relays) by 3 sessions on an in-process node with or without a services link; the observer's complete stream is read, then resumed at the id of every one of its messages; non-trivial = a generated line produced a batch of >=2 messages for the observer (a resume point inside it)",
		Assumptions: []string{"resume points are newer than the compaction horizon of the node", "the last connection stays open on a node that eventually applies every batch"},
		Units: []unit{
			{Name: "resume", Pkg: "internal/api", Harness: "api_vsync", Mode: "vsync", Run: "^TestVerifC04$", Rapid: true, Quick: 8000, Thorough: 160000, QuickTimeoutS: 600, ThoroughTimeoutS: 3000},
			nodeUnit("node", "^TestVerifC04Node$", 320, 8000),
		},
	})
}

func mainUnit(name, run string, quick, thorough int) unit {
	return unit{Name: name, Pkg: ".", Harness: "main", Run: run, Rapid: true, Quick: quick, Thorough: thorough, QuickTimeoutS: 600, ThoroughTimeoutS: 3000}
}

func init() {
	props = append(props, prop{
		ID: "C02", Title: "compaction, snapshot and restore never change the replicated state", Level: "fault_enumeration",
		LevelText:   "A rapid state machine over the real FSM (real LevelDB log copy, output stream and file snapshot store): generated logs (ircgen histories with index gaps, config entries that change the expiration, arbitrary time jumps) and generated schedules of Apply / Snapshot+Persist at generated compaction times (horizon before everything, at or around any entry, after everything) / Persist failing after k bytes / applies between Snapshot and Persist / Restore of the newest snapshot / restart with a fresh FSM. After every action the node is compared with a reference that applied the same prefix through the real applyRobustMessage and never snapshotted: full state (reflection walk), output per retained input, and exact agreement of log copy and output store with a model of what has been folded.",
		LevelNote:   "The horizon is computed from the expiration in force on the reference; compaction times are non-decreasing as wall-clock time is. Process restarts are modelled as a fresh FSM over the on-disk stores (a real single node cannot restart, see DESIGN.md 3.5).",
		Technique:   "stateful property-based testing (rapid) with generated fault schedules against a never-snapshotted reference and a fold model",
		DesignRef:   "4/C02",
		Rule:        "case = generated log (4-50 entries) + 3-30 generated actions; non-trivial = a snapshot that folded >=1 entry was later followed by a restore or restart; labels count the sub-classes (snapshot folded everything, failed persist, applies between snapshot and persist, config entry in the log, legacy JSON encoding); distinct = hash of log + actions",
		Assumptions: []string{"Snapshot and Restore run on raft's FSM goroutine and are never concurrent with Apply", "compaction times are non-decreasing"},
		Units:       []unit{mainUnit("fsm", "^TestVerifC02$", 3200, 48000)},
	})
}

func init() {
	props = append(props, prop{
		ID: "C07", Title: "a message of death is contained", Level: "fault_enumeration",
		LevelText:   "Generated histories with the test-only PANIC command injected at generated positions from generated roles (unregistered and services sessions never reach the handler, registered clients and operators do); the log is written to a real raft log store, a child process applies it through FSM.Apply and is expected to die in glog.Fatalf; the parent inspects the durable log (exactly that entry re-typed as message of death, everything else intact), restarts children until one survives (optionally snapshotting and restoring on the way), and compares the survivor's full state and per-entry outputs with an in-process reference that skips the marked entries but records their client message ids.",
		LevelNote:   "The crash is the real one (process exit inside the deferred recover); up to two crashing entries per history; the children replay the log from the durable store as raft does on start.",
		Technique:   "property-based fault injection (rapid): generated crash positions/roles, child processes, differential comparison with a reference replay",
		DesignRef:   "4/C07",
		Rule:        "case = history of 6-40 entries with 1-2 injected PANIC lines (+ optional snapshot/restore points on the restarted node); non-trivial = a PANIC reached the handler AND a later entry of the same session follows it; distinct = hash of the case",
		Assumptions: []string{"the PANIC command is only registered in the child processes (environment variable at process start)"},
		Units:       []unit{{Name: "children", Pkg: ".", Harness: "main", Run: "^TestVerifC07$", Rapid: true, Quick: 960, Thorough: 16000, QuickTimeoutS: 600, ThoroughTimeoutS: 3000}},
	})
}

func nodeUnit(name, run string, quick, thorough int) unit {
	return unit{Name: name, Pkg: ".", Harness: "main", Run: run, Rapid: true, Quick: quick, Thorough: thorough, QuickTimeoutS: 900, ThoroughTimeoutS: 3400}
}

func init() {
	props = append(props, prop{
		ID: "C10", Title: "a retried POST is never applied twice", Level: "exploration",
		LevelText:   "An in-process single node (real raft, LevelDB stores, output stream and api.HTTP) is driven by generated action sequences: sessions post lines through POST .../message, repeat the last POST with the same client message id 1-3 times (after other sessions' traffic, after forced snapshots, after restarts that restore from the snapshot, after the session ended, after an injected already-marked message-of-death entry). Every retry must be acknowledged and leave raft's last index, the log copy, and the output stream untouched; after every action the duplicate-detection marker of every session is compared between the live node and a replica that replays the durable raft log; at the end an observer's stream must contain every posted text exactly once.",
		LevelNote:   "Retries are generated only after the first copy has been applied on the handling node (the property's quantifier); client message ids are non-zero. After the session ended a retry may be answered 404 (the bridge stops then) but must still not be applied.",
		Technique:   "stateful property-based testing (rapid) of the real HTTP handler + raft + FSM against invariants over log length, output and replica markers",
		DesignRef:   "4/C10",
		Rule:        "case = 4-30 generated actions (create/line/retry/message-of-death/delete/snapshot/restart) on up to 5 sessions; non-trivial = a retry that follows another session's message or a snapshot/restart; distinct = hash of the action list",
		Assumptions: []string{"single voter raft in-process; PostMessageCooloff=0 installed through POST /config"},
		Units:       []unit{nodeUnit("node", "^TestVerifC10$", 480, 12000)},
	})
}

func init() {
	props = append(props, prop{
		ID: "C16", Title: "config: only valid current-revision updates take effect, same on all nodes", Level: "exploration",
		LevelText:   "Generated sequences of POST /config (members of the configuration family, invalid TOML, current/stale/future/garbage/missing revision headers) on an in-process node, interleaved with sessions, OPER attempts with the old and new passwords, GLINEs by an operator, unparsable Config entries placed directly in the log, snapshots (also folding everything into the snapshot state) and restarts. A model (revision, last accepted config + GLINE bans) decides acceptance; after every action GET /config (body and revision header), the configuration in force on the node, and the configuration of a replica that replays the durable log must all agree.",
		LevelNote:   "Updates are issued one after another (the property's quantifier). Behaviour that depends on the configuration is sampled through OPER; the rest is compared structurally (every field of config.Network).",
		Technique:   "model-based stateful property testing (rapid) of the real HTTP handlers + raft + FSM with a replica-agreement oracle",
		DesignRef:   "4/C16",
		Rule:        "case = 8-40 generated actions; non-trivial = at least one accepted update, one rejected for its revision, one invalid TOML, and a restart after an accepted update; distinct = hash of the action list",
		Assumptions: []string{"configuration posts are issued one after another", "single voter raft in-process"},
		Units: []unit{nodeUnit("node", "^TestVerifC16$", 480, 10000),
			{Name: "cluster", Pkg: ".", Harness: "main", Run: "^TestVerifC16Cluster$", Rapid: true, Quick: 4, Thorough: 64, Shards: 4, MinPerShard: 1, Weight: 2, NeedsBinary: true, QuickTimeoutS: 600, ThoroughTimeoutS: 3400}},
	})
}

func init() {
	props = append(props, prop{
		ID: "C15", Title: "every delivered line is a single well-formed IRC line", Level: "exploration",
		LevelText:   "Generated POST bodies (JSON with control characters incl. CR/LF/NUL and whole forged second lines, over-long ASCII, multi-byte characters straddling byte 510, arbitrary strings; raw bodies that are invalid JSON, invalid UTF-8 or exceed the body limit) and generated quit messages of DELETE requests are sent through the real HTTP handlers of an in-process node by a channel member, a registered outsider and an unregistered session; every message in the output stream and every message served to two observing sessions by GET .../messages (after JSON transport) is checked against the re-stated line grammar.",
		LevelNote:   "A prefix is required on relayed client commands and checked where present elsewhere (the closing ERROR and the services burst are emitted without prefix by fixed templates). A handler panic exits the process (exitOnRecover) and shows up as an inconclusive shard, not as a violation line.",
		Technique:   "property-based testing (rapid) of the HTTP handlers with a validity predicate over every delivered line (as stored in the output and as JSON transport serves it); native coverage-guided fuzzing of client histories with the same predicate over every reply in the thorough tier",
		DesignRef:   "4/C15",
		Rule:        "case = 1-20 generated requests (JSON post / raw post / DELETE with quit message) from three poster roles; every output message is an evaluation (counter lines_checked_in_output_stream); non-trivial = a request whose text contains CR/LF/NUL or exceeds 510 bytes AND at least one line was delivered to another session; distinct = hash of the request list",
		Assumptions: []string{"single voter raft in-process; PostMessageCooloff=0"},
		Units: []unit{nodeUnit("node", "^TestVerifC15$", 2400, 40000),
			fuzzUnit("fuzz-lines", "internal/ircserver", "ircserver", "FuzzVerifC15Lines", 300)},
	})
}

func init() {
	props = append(props, prop{
		ID: "C11", Title: "secrets and passwords gate the routes", Level: "exploration",
		LevelText:   "Generated interleavings of session life-cycle events (create, login, delete) and probes on an in-process node: POST message / GET messages / DELETE session against the own, another live, a deleted, a never-existing and a malformed session id, with no, empty, wrong, truncated, extended, another live session's, a deleted session's and the correct secret; and every private path (a fixed list, whatever the current api.go/robustirc.go mention in case \"/...\" clauses, and random paths) with every method and no / wrong user / wrong password / empty / correct credentials. A request succeeds iff it carries the live target session's own secret; a refused request must leave raft's index, the output stream and the whole state untouched and reveal no message; private paths answer 401 exactly without the password.",
		LevelNote:   "/quit, /join, /part and the raft transport are only probed without the password (they end the process, change the cluster or need a peer). Routes mounted in main() besides the two dispatchers are covered by the cluster check of C05.",
		Technique:   "property-based testing (rapid) of the HTTP dispatchers with an authorisation oracle and a no-effect (state-diff) oracle",
		DesignRef:   "4/C11",
		Rule:        "case = 7-42 generated steps on up to 5 sessions; non-trivial = contains a probe with a secret that is valid for another live session, or a probe against a deleted session; labels c11:<route>/<target>/<credential> and c11:private/<auth> count histories per class; distinct = hash of the step list",
		Assumptions: []string{"single voter raft in-process"},
		Units: []unit{nodeUnit("node", "^TestVerifC11$", 480, 10000),
			{Name: "cluster", Pkg: ".", Harness: "main", Run: "^TestVerifC11Cluster$", Rapid: true, Quick: 4, Thorough: 64, Shards: 4, MinPerShard: 1, Weight: 2, NeedsBinary: true, QuickTimeoutS: 600, ThoroughTimeoutS: 3400}},
	})
}

func init() {
	props = append(props, prop{
		ID: "C20", Title: "concurrent API use is free of data races", Level: "exploration",
		LevelText:   "The in-process node is built with -race. Groups of concurrently running operation streams are generated from the seed: posts (also two posters on one session, with a non-zero cool-off so that throttling does its bookkeeping), long-poll reads with reconnects, session creation/deletion, status and config pages, the expiry sweep, raft snapshots, user-triggered raft restores, and direct calls of the exported methods of IRCServer, OutputStream and LevelDBStore that the running system uses from those roles. The Go race detector is the oracle; each report is keyed by the sorted pair of the top robustirc frames of the two accesses.",
		LevelNote:   "Interleavings are the Go scheduler's (GOMAXPROCS 2/4/16, injected Gosched), sampled not enumerated. GLINE stays out of the concurrent stream (lock-order inversion with ThrottleUntil/ExpireSessions can deadlock: a liveness defect, not a race); while a restore runs nothing reads the output stream (Restore closes it under readers, which is a crash, not a race). Replays re-run the shard seed (best effort).",
		Technique:   "randomised concurrent stress generation with the Go race detector as oracle",
		DesignRef:   "4/C20",
		Rule:        "case = group of 3-10 generated operation streams (3-14 operations each) against a fresh node; non-trivial = a read-side stream (long-poll, status page, direct call) ran while a POST was being applied; distinct = hash of the group; labels count groups per stream kind. Operator groups: one operator stream (GLINE, MODE, TOPIC, ...) beside configuration readers. Unit output: group = one writer (Add / Delete oldest-first) beside 1-4 readers (Get, GetNext with deadline, LastSeen) and an interrupter on an output stream of which 8-1600 batches were read into the cache before (its limit is 1000); non-trivial = the cache is at its limit and >=2 readers run",
		Assumptions: []string{"only combinations the running system really executes concurrently are generated"},
		Units: []unit{{Name: "race", Pkg: ".", Harness: "main", Mode: "race", Run: "^TestVerifC20$", Quick: 480, Thorough: 9600, QuickTimeoutS: 900, ThoroughTimeoutS: 3400},
			{Name: "output", Pkg: "internal/outputstream", Harness: "outputstream", Mode: "race", Run: "^TestVerifC20Output$", Quick: 160, Thorough: 3200, QuickTimeoutS: 900, ThoroughTimeoutS: 3400}},
	})
}

func init() {
	props = append(props, prop{
		ID: "C05", Title: "acknowledged messages survive crashes and fail-over", Level: "fault_enumeration",
		LevelText:   "Generated fault schedules against (a) an in-process single node (real raft, LevelDB, output stream, HTTP handlers): 2-4 concurrent clients that follow the bridge's protocol (one message in flight, retry the same client message id until acknowledged, stop on 404) post while the schedule forces snapshots, restarts the node (also while POSTs are in flight, restoring from the newest snapshot); (b) three real robustirc binaries on loopback with HTTPS clients, SIGKILL / restart / SIGSTOP of generated nodes (the leader included), forced snapshots and kill-all. After healing every acknowledged message must be delivered exactly once, in the sender's posting order, identically by every node; unacknowledged messages at most once.",
		LevelNote:   "Interleavings of real processes and goroutines are sampled, not enumerated. A network that does not become healthy within its deadline is inconclusive (exit 2), never a violation. Default expiration keeps everything inside the compaction horizon.",
		Technique:   "generated fault injection (rapid) with a history oracle over the clients' acknowledgement log",
		DesignRef:   "4/C05",
		Rule:        "unit node: case = 2-4 clients x 5-40 messages + 1-5 timed faults (snapshot/restart/pause); non-trivial = a restart while a POST was in flight, or a restart that restored from a snapshot; unit cluster: case = timed list of kill/restart/pause/snapshot/kill-all faults on 3 real nodes with 3 senders + 1 observer; non-trivial = a kill of the then-leader or a kill-all; distinct = hash of the schedule",
		Assumptions: []string{"clients follow the bridge protocol (unique non-zero client message ids, same id on retry)", "PostMessageCooloff=0 installed through POST /config"},
		Units: []unit{
			{Name: "node", Pkg: ".", Harness: "main", Run: "^TestVerifC05$", Rapid: true, Quick: 320, Thorough: 6000, QuickTimeoutS: 300, ThoroughTimeoutS: 3400},
			{Name: "cluster", Pkg: ".", Harness: "main", Run: "^TestVerifC05Cluster$", Rapid: true, Quick: 8, Thorough: 128, Shards: 8, MinPerShard: 1, Weight: 2, NeedsBinary: true, QuickTimeoutS: 600, ThoroughTimeoutS: 3400},
		},
	})
}

// notApplicable lists properties that are not claimed (yet), with the reason.
var notApplicable = map[string]string{}

func writeManifest() {
	type level struct {
		Category  string `json:"category"`
		Text      string `json:"text"`
		DesignRef string `json:"design_ref,omitempty"`
	}
	type check struct {
		PropertyID   string `json:"property_id"`
		QuickCmd     string `json:"quick_cmd"`
		ThoroughCmd  string `json:"thorough_cmd"`
		EvidenceFile string `json:"evidence_file"`
		ReplayCmd    string `json:"replay_cmd_template"`
		Engine       string `json:"engine"`
		Level        level  `json:"level_claimed"`
		LevelNote    string `json:"level_note"`
		Technique    string `json:"technique"`
	}
	type na struct {
		PropertyID string `json:"property_id"`
		Reason     string `json:"reason"`
	}
	var checks []check
	claimed := map[string]bool{}
	for _, p := range props {
		claimed[p.ID] = true
		checks = append(checks, check{
			PropertyID:   p.ID,
			QuickCmd:     "bin/vcheck run " + p.ID + " --tier quick",
			ThoroughCmd:  "bin/vcheck run " + p.ID + " --tier thorough",
			EvidenceFile: "/verif/evidence/" + p.ID + ".json",
			ReplayCmd:    "bin/vcheck replay " + p.ID + " {path}",
			Engine:       "vcheck",
			Level:        level{Category: p.Level, Text: p.LevelText, DesignRef: "DESIGN.md section " + p.DesignRef},
			LevelNote:    p.LevelNote,
			Technique:    p.Technique,
		})
	}
	var nas []na
	for i := 1; i <= 20; i++ {
		id := fmt.Sprintf("C%02d", i)
		if claimed[id] {
			continue
		}
		reason := notApplicable[id]
		if reason == "" {
			reason = "check not built yet in this session (planned in DESIGN.md); not a statement about the technique"
		}
		nas = append(nas, na{id, reason})
	}
	hooks, _ := os.ReadFile("/verif/hooks.json")
	var hookCommits []string
	json.Unmarshal(hooks, &hookCommits)
	if hookCommits == nil {
		hookCommits = []string{}
	}
	m := map[string]interface{}{
		"version":   1,
		"setup_cmd": "cd /verif && GOFLAGS=-mod=mod GOPROXY=off GOSUMDB=off GOTOOLCHAIN=local go build -o bin/vcheck ./cmd/vcheck",
		"hooks": map[string]interface{}{
			"guard":            "verif",
			"enable":           "checks compile in-package harnesses with `go test -c -tags verif -modfile=<alt.mod> -overlay=<overlay.json>`; no file of /repo is modified and no hook commit exists (the overlay adds zz_verif_*_test.go files and, for C04/C08, a copy of outputstream.go whose sync import is redirected)",
			"baseline_off_cmd": "cd /repo && go test -vet=off -count=1 -timeout 25m ./...",
			"source_commits":   hookCommits,
			"add_only":         true,
		},
		"engines": []map[string]interface{}{
			{"name": "vcheck", "path": "/verif/cmd/vcheck", "serves_properties": keys(claimed), "kind_free_text": "driver: builds in-package rapid/fuzz harnesses against the current tree, shards them over 16 cores, merges statistics into evidence, handles known findings and replay files"},
		},
		"checks":         checks,
		"not_applicable": nas,
		"notes":          "All checks are property-based tests / fuzzers (pgregory.net/rapid v1.3.0, native go fuzzing in thorough tiers) with explicit oracles; exit 0 held, 1 violation, 2 inconclusive (build failure, time budget, worker death). See DESIGN.md.",
	}
	if nas == nil {
		m["not_applicable"] = []na{}
	}
	b, _ := json.MarshalIndent(m, "", " ")
	os.WriteFile("/verif/MANIFEST.json", append(b, '\n'), 0644)
}

func keys(m map[string]bool) []string {
	var out []string
	for i := 1; i <= 20; i++ {
		id := fmt.Sprintf("C%02d", i)
		if m[id] {
			out = append(out, id)
		}
	}
	return out
}
