module verif.local/verif

go 1.23

require pgregory.net/rapid v1.3.0
